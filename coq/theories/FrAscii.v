(* FrAscii.v — code-shaped model of pymodbus/framer/ascii_framer.py (ModbusAsciiFramer).
   State = (_buffer, _header); [a_recv] mirrors processIncomingPacket / checkFrame /
   getFrame / advanceFrame statement by statement.  Delimiters, slice bounds, header
   literals, comparisons and the struct format come from [ascii_code] (regenerated from the
   source: Generated/GenFramerA.v [ascii]); the LRC from [lrc_code].  The scanning glue
   (bytes.find, a2b_hex, int(_,16), try/except ValueError) is hand-modelled and validated by
   correspondence.  No proofs. *)
From PM.theories Require Import Base Expr Struct FrBaseA Lrc.
Open Scope string_scope.
Open Scope list_scope.
Open Scope Z_scope.

(* 'lrc' is the *string* '0000' until a frame has been parsed: None *)
Record ahdr := { a_lrc : option Z; a_len : Z; a_uid : Z }.
Record astate := { a_buf : bytes; a_hdr : ahdr }.

Inductive piece := PcStart | PcParams | PcEncoded | PcChecksum | PcEnd.

Record ascii_code := {
  a_hsize : Z;                               (* 0x02 *)
  a_start : bytes; a_end : bytes;            (* b':' , b"\r\n" *)
  a_hdr_init : ahdr; a_hdr_adv : ahdr; a_hdr_reset : ahdr; a_hdr_drop : ahdr;
  a_ready : expr;                            (* len(self._buffer) > 1 *)
  a_nostart : expr;                          (* start == -1 *)
  a_skip : expr;                             (* start > 0 *)
  a_hasend : expr;                           (* end != -1 *)
  a_uid_lo : expr; a_uid_hi : expr;          (* self._buffer[1:3] *)
  a_lrc_lo : expr; a_lrc_hi : expr;          (* self._buffer[end - 2:end] *)
  a_data_lo : expr; a_data_hi : expr;        (* self._buffer[start + 1:end - 2] *)
  a_check_lrc : bool;                        (* checkFrame ends in `return checkLRC(data, self._header['lrc'])` *)
  a_adv_lo : expr;                           (* self._buffer[self._header['len'] + 2:] *)
  a_get_start : expr; a_get_end : expr;      (* self._hsize + 1 ; self._header['len'] - 2 *)
  a_get_guard : expr;                        (* end > 0 *)
  a_droptest : expr;                         (* elif self._header['len']: *)
  a_drop_lo : expr;                          (* self._buffer[1:] *)
  a_populate : list (string * string);
  a_skel : pskel;
  a_build_big : bool; a_build_fmt : list fmtc;     (* ASCII_FRAME_HEADER *)
  a_build_args : list expr;                  (* message.unit_id, message.function_code *)
  a_build_lrc_order : list string;           (* computeLRC(encoded + buffer) *)
  a_build_pieces : list piece; a_build_upper : bool;
  a_single_default : bool
}.

Definition ascii_skel_expected : pskel :=
  {| sk_loop := LWhileReady;
     sk_body := [PIf PCheck
                   [PIf PUnit [PDeliverInline] [PAdvance]]
                   [PIf (PHdr "droptest") [PDropOne] [PBreak]]] |}.

Definition ascii_pieces_expected : list piece := [PcStart; PcParams; PcEncoded; PcChecksum; PcEnd].

Fixpoint be_value (bs : bytes) : Z :=          (* int(b2a_hex(bs), 16) for non-empty bs *)
  match bs with [] => 0 | b :: t => Z.of_N b * 256 ^ Z.of_nat (length t) + be_value t end.

Section WithCode.
Variable B : base_code.
Variable L : lrc_code.
Variable C : ascii_code.
Variable dec : bytes -> dres.

Definition a_init : astate := {| a_buf := []; a_hdr := a_hdr_init C |}.

Definition aenv (st : astate) : env :=
  env_of [("self._hsize", a_hsize C); ("self._header['len']", a_len (a_hdr st));
          ("len(self._buffer)", Z.of_nat (length (a_buf st)))].

Definition a_isready (st : astate) : bool := beval (aenv st) (a_ready C).

Definition a_advance (st : astate) : astate :=
  {| a_buf := pyfrom (a_buf st) (eval (aenv st) (a_adv_lo C)); a_hdr := a_hdr_adv C |}.
Definition a_reset (st : astate) : astate := {| a_buf := []; a_hdr := a_hdr_reset C |}.
Definition a_dropone (st : astate) : astate :=
  {| a_buf := pyfrom (a_buf st) (eval (aenv st) (a_drop_lo C)); a_hdr := a_hdr_drop C |}.

(* the try-block of checkFrame; Raise = the ValueError (or subclass) that is caught *)
Definition a_try (buf : bytes) (h : ahdr) (start end_ : Z) : ahdr * res bytes :=
  let rho := env_of [("start", start); ("end", end_)] in
  match int_hex2 (pyslice buf (eval rho (a_uid_lo C)) (eval rho (a_uid_hi C))) with
  | Raise e => (h, Raise e)
  | Ok uid =>
      let h1 := {| a_lrc := a_lrc h; a_len := a_len h; a_uid := uid |} in
      match a2b_hex (pyslice buf (eval rho (a_lrc_lo C)) (eval rho (a_lrc_hi C))) with
      | Raise e => (h1, Raise e)
      | Ok [] => (h1, Raise ValueError)            (* int('', 16) *)
      | Ok lrc =>
          let h2 := {| a_lrc := Some (be_value lrc); a_len := a_len h1; a_uid := a_uid h1 |} in
          (h2, a2b_hex (pyslice buf (eval rho (a_data_lo C)) (eval rho (a_data_hi C))))
      end
  end.

Definition a_check (st : astate) : astate * bool :=
  let start := find_z (a_start C) (a_buf st) in
  if beval (env_of [("start", start)]) (a_nostart C) then (st, false)
  else
    let skip := beval (env_of [("start", start)]) (a_skip C) in
    let buf := if skip then pyfrom (a_buf st) start else a_buf st in
    let start := if skip then 0 else start in
    let end_ := find_z (a_end C) buf in
    if beval (env_of [("end", end_)]) (a_hasend C) then
      let h0 := {| a_lrc := a_lrc (a_hdr st); a_len := end_; a_uid := a_uid (a_hdr st) |} in
      match a_try buf h0 start end_ with
      | (h, Raise _) => ({| a_buf := buf; a_hdr := h |}, false)
      | (h, Ok data) =>
          ({| a_buf := buf; a_hdr := h |},
           if a_check_lrc C
           then py_check_lrc L data (match a_lrc h with Some v => v | None => -1 end)
           else true)
      end
    else ({| a_buf := buf; a_hdr := a_hdr st |}, false).

Definition a_getframe (st : astate) : res bytes :=
  let start := eval (aenv st) (a_get_start C) in
  let end_ := eval (aenv st) (a_get_end C) in
  let buffer := pyslice (a_buf st) start end_ in
  if beval (env_of [("end", end_)]) (a_get_guard C) then a2b_hex buffer else Ok [].

Definition a_popfield (attr : string) (h : ahdr) : Z :=
  match sassoc attr (a_populate C) with
  | Some k => if String.eqb k "uid" then a_uid h else if String.eqb k "len" then a_len h else 0
  | None => 0
  end.

Definition a_deliv (data : bytes) (h : ahdr) : delivery :=
  {| d_pdu := data; d_tid := a_popfield "transaction_id" h; d_pid := a_popfield "protocol_id" h;
     d_uid := a_popfield "unit_id" h |}.

Definition cons_da (d : delivery) (r : astate * list delivery * outc) : astate * list delivery * outc :=
  let '(s, ds, o) := r in (s, d :: ds, o).

Fixpoint a_loop (fuel : nat) (units : list Z) (single : bool) (st : astate) : astate * list delivery * outc :=
  match fuel with
  | O => (st, [], OutOfFuel)
  | S f =>
      if a_isready st then
        match a_check st with
        | (st1, true) =>
            match validate_unit B units single (Some (a_uid (a_hdr st1))) with
            | Raise e => (st1, [], Exc e)
            | Ok true =>
                match a_getframe st1 with
                | Raise e => (st1, [], Exc e)
                | Ok frame =>
                    match dec frame with
                    | DNone => (st1, [], Exc ModbusIOExc)
                    | DRaise e => (st1, [], Exc e)
                    | DMsg _ => cons_da (a_deliv frame (a_hdr st1)) (a_loop f units single (a_advance st1))
                    end
                end
            | Ok false => a_loop f units single (a_advance st1)
            end
        | (st1, false) =>
            if beval (aenv st1) (a_droptest C) then a_loop f units single (a_dropone st1)
            else (st1, [], Done)
        end
      else (st, [], Done)
  end.

Definition a_recv (c : cfg) (st : astate) (data : bytes) : astate * list delivery * outc :=
  let st0 := {| a_buf := a_buf st ++ data; a_hdr := a_hdr st |} in
  a_loop (S (length (a_buf st0))) (c_units c) (single_of (a_single_default C) c) st0.

(* the serial-style server handlers call resetFrame() when processIncomingPacket raises *)
Definition a_recv_h (c : cfg) (st : astate) (data : bytes) : astate * list delivery * outc :=
  match a_recv c st data with
  | (st', ds, Exc e) => (a_reset st', ds, Exc e)
  | r => r
  end.

Definition a_build (uid fc : Z) (data : bytes) : res bytes :=
  let rho := env_of [("message.unit_id", uid); ("message.function_code", fc)] in
  let params := map (eval rho) (a_build_args C) in
  do buffer <- pack (a_build_big C) (a_build_fmt C) params;
  let parts := map (fun n => if String.eqb n "encoded" then data else if String.eqb n "buffer" then buffer else [])
                   (a_build_lrc_order C) in
  let checksum := py_lrc L (concat parts) in
  let render (p : piece) : bytes :=
    match p with
    | PcStart => a_start C
    | PcParams => flat_map fmt02x params
    | PcEncoded => b2a_hex data
    | PcChecksum => fmt02x checksum
    | PcEnd => a_end C
    end in
  let packet := flat_map render (a_build_pieces C) in
  Ok (if a_build_upper C then upper packet else packet).

End WithCode.
