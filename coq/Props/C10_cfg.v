(* C10 add-on — the hosted set the user built is the hosted set that is served: the context object
   handed to a factory or constructor — an EMPTY multi-unit context included, to which units are
   attached later — is the object the handlers look units up in.  C10's routing theorems are about
   that object; `context or ModbusServerContext()` would replace it if a context could be false. *)
From Coq Require Import List String.
From PM.theories Require Import Base Ladder Frontends CorrFrontends Wiring.
From PM.Generated Require Import GenFrontends GenWiring.
From PM.proofs Require Import FrontendsC12_proofs Wiring_proofs.
Import ListNotations.
Open Scope string_scope.
Open Scope list_scope.

Theorem C10_cfg_context_served : forall f fe,
  In f factories -> In (fa_target f, fe) servers ->
  exists roles s p, assoc_s (fa_target f) server_wiring = Some roles /\ assoc_s "context" roles = Some s /\
    wparam s = Some p /\
    forall V (env : string -> option V) (user_truth : V -> bool) (x d : V),
      env "context" = Some x ->
      configured_t s (py_truthy (role_overrides truth_facts "context") user_truth) (ctor_sees f env p) d = x.
Proof. exact context_served. Qed.
Print Assumptions C10_cfg_context_served.

Theorem C10_cfg_constructor_keeps_context : forall srv fe,
  In (srv, fe) servers ->
  exists roles s, assoc_s srv server_wiring = Some roles /\ assoc_s "context" roles = Some s /\
    forall V (user_truth : V -> bool) (x d : V),
      configured_t s (py_truthy (role_overrides truth_facts "context") user_truth) (Some x) d = x /\
      configured_t s (py_truthy (role_overrides truth_facts "context") user_truth) None d = d.
Proof. intros srv fe H. exact (constructor_serves_user_value srv fe "context" H (context_required fe)). Qed.
Print Assumptions C10_cfg_constructor_keeps_context.

Example C10_cfg_nonvacuous : role_overrides truth_facts "context" = false /\ (9 <= length servers)%nat.
Proof. split; [vm_compute; reflexivity | vm_compute; repeat constructor]. Qed.
Print Assumptions C10_cfg_nonvacuous.
