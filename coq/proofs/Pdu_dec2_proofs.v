(* Pdu_dec2_proofs.v — C01 decode conformance for the kinds with loops over sub-records:
   file-record requests (FC 20), write-file-record request/response (FC 21), device-identification
   response (FC 43/14, one page, distinct object ids); and the final theorem C01_decode_conforms. *)
From PM.theories Require Import Base Struct PduCls PduSpec Pdu CorrPdu.
From PM.Generated Require Import GenPdu.
From PM.proofs Require Import Struct_proofs Pdu_bits_proofs Pdu_proofs Pdu_more_proofs Pdu_dec1_proofs.
From Coq Require Import ZifyBool.
Open Scope string_scope.
Open Scope list_scope.
Open Scope Z_scope.
Ltac Zify.zify_post_hook ::= Z.to_euclidean_division_equations.

(* ---- slices in the middle of a buffer ---------------------------------------------------------- *)

Lemma zslice_mid (pre x rest : bytes) :
  zslice (pre ++ x ++ rest) (len pre) (len pre + len x) = x.
Proof.
  unfold zslice, bslice, len. rewrite Nat2Z.id.
  replace (Z.to_nat (Z.of_nat (length pre) + Z.of_nat (length x)) - length pre)%nat with (length x) by lia.
  rewrite skipn_app, Nat.sub_diag, skipn_all. cbn [skipn app].
  rewrite firstn_app, Nat.sub_diag, firstn_all. cbn [firstn]. apply app_nil_r.
Qed.

Lemma len_app {A} (a b : list A) : len (a ++ b) = len a + len b.
Proof. unfold len. rewrite app_length. lia. Qed.

Lemma unpack_BHHH a b c : is_u16 a = true -> is_u16 b = true -> is_u16 c = true ->
  unpack true [FB; FH; FH; FH] ([6%N] ++ u16 a ++ u16 b ++ u16 c) = Ok [6; a; b; c].
Proof.
  intros. change [6%N] with (u8 6). apply unpack_pack. pk_simpl. rewrite ?app_nil_r. reflexivity.
Qed.

Lemma words_wfb l : all_u16 l = true -> wfb (words l) = true.
Proof.
  induction l as [|v t IH]; intros H; [reflexivity|].
  cbn [all_u16 forallb] in H. apply andb_true_iff in H as [Hv Ht]. unfold is_u16 in Hv.
  unfold words. cbn [flat_map]. unfold u16 at 1. cbn [app wfb forallb]. fold (words t) (wfb (words t)).
  rewrite IH by exact Ht. unfold byteb. rewrite andb_true_r. apply andb_true_iff. split; apply N.ltb_lt; lia.
Qed.

Lemma words_of_bytes_words l : all_u16 l = true -> words_of_bytes (words l) = Some l.
Proof.
  induction l as [|v t IH]; intros H; [reflexivity|].
  cbn [all_u16 forallb] in H. apply andb_true_iff in H as [Hv Ht].
  unfold words. cbn [flat_map]. unfold u16 at 1. cbn [app words_of_bytes]. fold (words t).
  rewrite IH by exact Ht. now rewrite rd_be16_u16'.
Qed.

Lemma words_len l : len (words l) = 2 * len l.
Proof. unfold len. rewrite words_length. lia. Qed.

(* ---- FC 20 request ------------------------------------------------------------------------------ *)

Definition mk_read (s : sub_read) : frec := mk_frec (sr_file s) (sr_record s) [] (sr_length s) 1.

Lemma sub_read_bytes_len s : len (sub_read_bytes s) = 7.
Proof. reflexivity. Qed.

Lemma dec_read_subreqs_spec : forall ss pre,
  forallb sub_read_wf ss = true ->
  dec_read_subreqs (length ss) (pre ++ flat_map sub_read_bytes ss) (len pre) = Ok (map mk_read ss).
Proof.
  induction ss as [|s t IH]; intros pre Hw; [reflexivity|].
  cbn [forallb] in Hw. apply andb_true_iff in Hw as [Hs Ht]. unfold sub_read_wf in Hs. split_andb Hs.
  cbn [length dec_read_subreqs flat_map].
  replace (len pre + 7) with (len pre + len (sub_read_bytes s)) by (rewrite sub_read_bytes_len; lia).
  rewrite zslice_mid. unfold upk. unfold sub_read_bytes at 1. rewrite unpack_BHHH by assumption. cbn [bind].
  rewrite app_assoc. replace (len pre + len (sub_read_bytes s)) with (len (pre ++ sub_read_bytes s)) by (rewrite len_app; lia).
  rewrite IH by exact Ht. cbn [bind map]. change (6 =? 6) with true. reflexivity.
Qed.

Lemma sub_read_eta ss :
  map (fun r => {| sr_file := fr_file r; sr_record := fr_recno r; sr_length := fr_len r |}) (map mk_read ss) = ss.
Proof. induction ss as [|[f r l] t IH]; [reflexivity|]. cbn [map]. rewrite IH. reflexivity. Qed.

Lemma all_ref6_read ss : forallb (fun r => fr_ref r =? 6) (map mk_read ss) = true.
Proof. induction ss as [|s t IH]; [reflexivity|]. cbn [map forallb]. now rewrite IH. Qed.

Lemma sub_read_list_refl ss : list_eqb sub_read_eqb ss ss = true.
Proof.
  induction ss as [|s t IH]; [reflexivity|]. cbn [list_eqb]. unfold sub_read_eqb at 1. now rewrite !Z.eqb_refl, IH.
Qed.

Lemma range_len_7 n : 0 <= n -> range_len 1 (7 * n) 7 = n.
Proof. intros H. unfold range_len. destruct (7 * n <=? 1) eqn:E; lia. Qed.

Lemma dec_ReadFileReq ss : spec_wf (MReadFileReq ss) = true -> dec_ok (MReadFileReq ss).
Proof.
  intros Hwf. unfold dec_ok. pose proof Hwf as H. cbn [spec_wf] in H. split_andb H.
  dec_open. unfold u8 at 1. cbn [app data0 bind]. tab.
  rewrite Z2N.id by (pose proof (len_nonneg ss); lia). rewrite range_len_7 by apply len_nonneg.
  unfold len at 1. rewrite Nat2Z.id.
  change (Z.to_N (7 * len ss) :: flat_map sub_read_bytes ss) with ([Z.to_N (7 * len ss)] ++ flat_map sub_read_bytes ss).
  change 1 with (len [Z.to_N (7 * len ss)]) at 1.
  rewrite dec_read_subreqs_spec by assumption. cbn [bind].
  unfold reclass; cbn [obj_sub class_of].
  eexists; eexists; split; [reflexivity|split; [reflexivity|]].
  split; [unfold abs; cbn [abs_raw]; rewrite all_ref6_read, sub_read_eta, Hwf; reflexivity
         |cbn [msg_matches]; apply sub_read_list_refl].
Qed.

(* ---- FC 21 request / response --------------------------------------------------------------------- *)

Definition mk_write (s : sub_write) : frec :=
  mk_frec (sw_file s) (sw_record s) (words (sw_data s)) (len (sw_data s)) (len (words (sw_data s)) + 1).

Lemma sub_write_size_pos s : 7 <= sub_write_size s.
Proof. unfold sub_write_size. pose proof (len_nonneg (sw_data s)). lia. Qed.

Lemma zsum_sizes_ge ss : 7 * len ss <= PduSpec.zsum (map sub_write_size ss).
Proof.
  induction ss as [|s t IH]; [cbn; lia|]. cbn [map PduSpec.zsum fold_right]. fold (PduSpec.zsum (map sub_write_size t)).
  pose proof (sub_write_size_pos s). unfold len in *. cbn [length]. lia.
Qed.

Lemma dec_write_subs_spec : forall ss fuel pre bc acc,
  forallb sub_write_wf ss = true -> (length ss <= fuel)%nat ->
  len pre + PduSpec.zsum (map sub_write_size ss) = bc + 1 ->
  dec_write_subs fuel (pre ++ flat_map sub_write_bytes ss) (len pre) bc acc = Ok (acc ++ map mk_write ss).
Proof.
  induction ss as [|s t IH]; intros fuel pre bc acc Hw Hf Hb.
  - cbn [map PduSpec.zsum fold_right] in Hb. destruct fuel; cbn [dec_write_subs];
      replace (len pre <? bc) with false by lia; cbn [map]; now rewrite app_nil_r.
  - cbn [forallb] in Hw. apply andb_true_iff in Hw as [Hs Ht]. unfold sub_write_wf in Hs. split_andb Hs.
    cbn [map PduSpec.zsum fold_right] in Hb. fold (PduSpec.zsum (map sub_write_size t)) in Hb.
    pose proof (zsum_sizes_ge t) as Hge. pose proof (len_nonneg t) as Hn.
    destruct fuel as [|fuel]; [cbn [length] in Hf; lia|]. cbn [dec_write_subs flat_map].
    assert (Hsz : sub_write_size s = 7 + 2 * len (sw_data s)) by reflexivity. rewrite Hsz in Hb.
    pose proof (len_nonneg (sw_data s)) as Hnd.
    replace (len pre <? bc) with true by lia.
    (* the 7-byte header *)
    set (hd := [6%N] ++ u16 (sw_file s) ++ u16 (sw_record s) ++ u16 (len (sw_data s))).
    assert (Hsb : sub_write_bytes s = hd ++ words (sw_data s)).
    { unfold sub_write_bytes, hd. now rewrite <- !app_assoc. }
    rewrite Hsb. rewrite <- app_assoc.
    replace (len pre + 7) with (len pre + len hd) by reflexivity.
    rewrite zslice_mid. unfold upk. unfold hd at 1. rewrite unpack_BHHH by assumption. cbn [bind].
    change (6 =? 6) with true. cbv beta iota.
    (* the data *)
    replace (len pre + len (sw_data s) * 2 + 7 - len (sw_data s) * 2) with (len (pre ++ hd))
      by (rewrite len_app; change (len hd) with 7; lia).
    replace (len pre + len (sw_data s) * 2 + 7) with (len (pre ++ hd) + len (words (sw_data s)))
      by (rewrite len_app, words_len; change (len hd) with 7; lia).
    rewrite (app_assoc pre hd). rewrite zslice_mid.
    rewrite (app_assoc (pre ++ hd)). rewrite <- len_app.
    rewrite IH; [|exact Ht|cbn [length] in Hf; lia|rewrite !len_app, words_len; change (len hd) with 7; lia].
    rewrite <- app_assoc. reflexivity.
Qed.

Lemma sub_write_eta ss : forallb sub_write_wf ss = true -> opt_map rs_sub_write (map mk_write ss) = Some ss.
Proof.
  induction ss as [|[f r d] t IH]; intros H; [reflexivity|].
  cbn [forallb] in H. apply andb_true_iff in H as [Hs Ht]. unfold sub_write_wf in Hs. cbn [sw_data] in Hs. split_andb Hs.
  cbn [map opt_map]. unfold rs_sub_write at 1. cbn [mk_write mk_frec fr_data fr_file fr_recno sw_data sw_file sw_record].
  rewrite words_of_bytes_words by assumption. rewrite IH by exact Ht. reflexivity.
Qed.

Lemma write_recs_ok ss : forallb sub_write_wf ss = true ->
  forallb (fun r => (fr_ref r =? 6) && (fr_len r * 2 =? zlen (fr_data r)) && wfb (fr_data r)) (map mk_write ss) = true.
Proof.
  induction ss as [|s t IH]; intros H; [reflexivity|].
  cbn [forallb] in H. apply andb_true_iff in H as [Hs Ht]. unfold sub_write_wf in Hs. split_andb Hs.
  cbn [map forallb]. rewrite IH by exact Ht. cbn [mk_write mk_frec fr_ref fr_len fr_data].
  rewrite words_wfb by assumption. change (zlen (words (sw_data s))) with (len (words (sw_data s))). rewrite words_len.
  replace (len (sw_data s) * 2 =? 2 * len (sw_data s)) with true by lia. reflexivity.
Qed.

Lemma sub_write_list_refl ss : list_eqb sub_write_eqb ss ss = true.
Proof.
  induction ss as [|s t IH]; [reflexivity|]. cbn [list_eqb]. unfold sub_write_eqb at 1.
  now rewrite !Z.eqb_refl, zl_eqb_refl, IH.
Qed.

Lemma dec_write_file (K : list sub_write -> msg) c server ss :
  (K = MWriteFileReq /\ c = WriteFileRecordRequest /\ server = true) \/
  (K = MWriteFileRsp /\ c = WriteFileRecordResponse /\ server = false) ->
  spec_wf (K ss) = true -> dec_ok (K ss).
Proof.
  intros Hk Hwf. unfold dec_ok.
  assert (H : is_u8 (PduSpec.zsum (map sub_write_size ss)) = true /\ forallb sub_write_wf ss = true).
  { destruct Hk as [(-> & _)|(-> & _)]; cbn [spec_wf] in Hwf; apply andb_true_iff in Hwf; exact Hwf. }
  destruct H as [Hu Hs]. pose proof (zsum_sizes_ge ss) as Hge. pose proof (len_nonneg ss) as Hn. unfold is_u8 in Hu.
  set (total := PduSpec.zsum (map sub_write_size ss)) in *.
  assert (Hdec : decode_into (OFileRecs c []) (u8 total ++ flat_map sub_write_bytes ss) = Ok (OFileRecs c (map mk_write ss))).
  { cbn [decode_into]. unfold u8 at 1. cbn [app data0 bind]. rewrite Z2N.id by lia.
    assert (Hc1 : cls_eqb c ReadFileRecordRequest = false) by (destruct Hk as [(_ & -> & _)|(_ & -> & _)]; reflexivity).
    assert (Hc2 : cls_eqb c ReadFileRecordResponse = false) by (destruct Hk as [(_ & -> & _)|(_ & -> & _)]; reflexivity).
    rewrite Hc1, Hc2.
    change (Z.to_N total :: flat_map sub_write_bytes ss) with ([Z.to_N total] ++ flat_map sub_write_bytes ss).
    change 1 with (len [Z.to_N total]) at 1.
    rewrite dec_write_subs_spec; [reflexivity|exact Hs|unfold len in *; lia|change (len [Z.to_N total]) with 1; lia]. }
  destruct Hk as [(-> & -> & ->)|(-> & -> & ->)];
    unfold py_decode, msg_is_request, py_decode_server, py_decode_client, spec_pdu;
    cbn [app data0 bind skipn Z.of_N]; tab2; cbv beta iota; tab2; fold total; rewrite Hdec; cbn [bind];
    unfold reclass; cbn [obj_sub class_of];
    (eexists; eexists; split; [reflexivity|split; [reflexivity|]]);
    (split; [unfold abs; cbn [abs_raw]; rewrite write_recs_ok by exact Hs; fold rs_sub_write; rewrite sub_write_eta by exact Hs;
             tab; cbv beta iota; rewrite Hwf; reflexivity
            |cbn [msg_matches]; apply sub_write_list_refl]).
Qed.

(* ---- FC 43 / 14 response ------------------------------------------------------------------------- *)

Definition keys_of (info : list (Z * mval)) : list Z := map fst info.

Lemma mei_insert_new : forall info k v, existsb (fun x => x =? k) (keys_of info) = false ->
  mei_insert info k v = info ++ [(k, MOne v)].
Proof.
  induction info as [|[k' x] t IH]; intros k v H; [reflexivity|].
  cbn [keys_of map existsb fst] in H. apply orb_false_iff in H as [H1 H2].
  cbn [mei_insert]. rewrite H1. cbn [app]. f_equal. now apply IH.
Qed.

Definition one (o : Z * bytes) : Z * mval := (fst o, MOne (snd o)).

Lemma object_bytes_len o : len (object_bytes o) = 2 + len (snd o).
Proof. unfold object_bytes. rewrite !len_app. change (len (u8 (fst o))) with 1. change (len (u8 (len (snd o)))) with 1. lia. Qed.

(* ids of [objs] pairwise distinct and distinct from the keys already in [info] *)
Fixpoint ids_fresh (info : list Z) (objs : list (Z * bytes)) : bool :=
  match objs with
  | [] => true
  | o :: t => negb (existsb (fun x => x =? fst o) info) && ids_fresh (info ++ [fst o]) t
  end.

Lemma dec_mei_objs_spec : forall objs fuel info,
  forallb object_wf objs = true -> ids_fresh (keys_of info) objs = true -> (length objs <= fuel)%nat ->
  dec_mei_objs fuel (flat_map object_bytes objs) info = Ok (info ++ map one objs).
Proof.
  induction objs as [|[id d] t IH]; intros fuel info Hw Hf Hl.
  - destruct fuel; cbn; now rewrite app_nil_r.
  - cbn [forallb] in Hw. apply andb_true_iff in Hw as [Ho Ht]. unfold object_wf in Ho. cbn [fst snd] in Ho. split_andb Ho.
    cbn [ids_fresh fst] in Hf. apply andb_true_iff in Hf as [Hn Hf]. apply negb_true_iff in Hn.
    destruct fuel as [|fuel]; [cbn [length] in Hl; lia|].
    cbn [flat_map]. unfold object_bytes at 1. cbn [fst snd]. unfold u8. cbn [app dec_mei_objs].
    unfold is_u8 in Ho, Ho1. rewrite !Z2N.id by lia.
    replace (N.to_nat (Z.to_N (len d))) with (length d) by (unfold len; lia).
    rewrite skipn_app, Nat.sub_diag, skipn_all, firstn_app, Nat.sub_diag, firstn_all. cbn [skipn firstn app]. rewrite app_nil_r.
    rewrite mei_insert_new by exact Hn.
    rewrite IH; [|exact Ht| |cbn [length] in Hl; lia].
    + rewrite <- app_assoc. reflexivity.
    + unfold keys_of in *. rewrite map_app. exact Hf.
Qed.

Lemma distinct_fresh : forall objs pre, 
  distinct_ids objs = true -> forallb (fun o => negb (existsb (fun x => x =? fst o) pre)) objs = true ->
  ids_fresh pre objs = true.
Proof.
  induction objs as [|o t IH]; intros pre Hd Hp; [reflexivity|].
  cbn [distinct_ids] in Hd. apply andb_true_iff in Hd as [Hd1 Hd2].
  cbn [forallb] in Hp. apply andb_true_iff in Hp as [Hp1 Hp2].
  cbn [ids_fresh]. rewrite Hp1. cbn [andb]. apply IH; [exact Hd2|].
  apply forallb_forall. intros x Hx. rewrite forallb_forall in Hp2. specialize (Hp2 x Hx).
  apply negb_true_iff. apply negb_true_iff in Hp2. rewrite existsb_app, Hp2. cbn [existsb orb].
  apply negb_true_iff in Hd1. destruct (fst o =? fst x) eqn:E; [|reflexivity].
  exfalso. assert (Hex : existsb (fun y => fst y =? fst o) t = true).
  { apply existsb_exists. exists x. split; [exact Hx|]. apply Z.eqb_eq in E. rewrite E. apply Z.eqb_refl. }
  rewrite Hex in Hd1. discriminate Hd1.
Qed.

Lemma mei_items_one objs : mei_items (map one objs) = objs.
Proof. induction objs as [|[i d] t IH]; [reflexivity|]. unfold mei_items in *. cbn [map flat_map one fst snd app]. now rewrite IH. Qed.

Lemma objs_list_refl objs : list_eqb object_eqb objs objs = true.
Proof.
  induction objs as [|o t IH]; [reflexivity|]. cbn [list_eqb]. unfold object_eqb at 1.
  rewrite Z.eqb_refl, IH. cbn [andb]. rewrite andb_true_r.
  unfold bytes_eqb. induction (snd o) as [|b l IHl]; [reflexivity|]. cbn. now rewrite N.eqb_refl, IHl.
Qed.

Lemma unpack_B6 a b c d e f : is_u8 a = true -> is_u8 b = true -> is_u8 c = true -> is_u8 d = true -> is_u8 e = true -> is_u8 f = true ->
  unpack true [FB; FB; FB; FB; FB; FB] (u8 a ++ u8 b ++ u8 c ++ u8 d ++ u8 e ++ u8 f) = Ok [a; b; c; d; e; f].
Proof. solve_unpack. Qed.

Lemma dec_ReadDevIdRsp c cf more next objs :
  spec_wf (MReadDevIdRsp c cf more next objs) = true -> conforming_decode (MReadDevIdRsp c cf more next objs) = true ->
  dec_ok (MReadDevIdRsp c cf more next objs).
Proof.
  intros Hwf Hc. unfold dec_ok. pose proof Hwf as H. cbn [spec_wf] in H. split_andb H.
  cbn [conforming_decode] in Hc. apply andb_true_iff in Hc as [Hd Hfit].
  dec_open.
  set (hdr := u8 14 ++ u8 c ++ u8 cf ++ u8 more ++ u8 next ++ u8 (len objs)).
  change (14%N :: u8 c ++ u8 cf ++ u8 more ++ u8 next ++ u8 (len objs) ++ flat_map object_bytes objs)
    with (hdr ++ flat_map object_bytes objs).
  rewrite bslice_prefix by reflexivity. rewrite skipn_prefix by reflexivity.
  unfold upk, hdr. rewrite unpack_B6 by (assumption || reflexivity). cbn [bind].
  rewrite dec_mei_objs_spec; [|exact H0| |].
  2:{ cbn [keys_of map]. apply distinct_fresh; [exact Hd|]. apply forallb_forall. intros; reflexivity. }
  2:{ rewrite app_length. change (length (u8 14 ++ u8 c ++ u8 cf ++ u8 more ++ u8 next ++ u8 (len objs))) with 6%nat.
      assert (G : forall l : list (Z * bytes), (length l <= length (flat_map object_bytes l))%nat).
      { induction l as [|o t IHt]; [cbn; lia|]. cbn [flat_map length]. rewrite app_length.
        unfold object_bytes at 1. rewrite !app_length. cbn [u8 length]. lia. }
      specialize (G objs). lia. }
  cbn [bind app]. unfold reclass. cbn [obj_sub class_of]. tab. cbv beta iota.
  match goal with |- context [lookup_sub ?t ?f ?s] => destruct (lookup_sub t f s) end; cbn [set_class];
  (eexists; eexists; split; [reflexivity|split; [reflexivity|]];
   split; [unfold abs; cbn [abs_raw]; rewrite mei_items_one; change (14 =? 14) with true; cbn [andb];
           rewrite Hfit, Hwf; reflexivity
          |cbn [msg_matches]; rewrite !Z.eqb_refl, objs_list_refl; reflexivity]).
Qed.

(* ---- C01_decode_conforms ---------------------------------------------------------------------- *)

Theorem decode_conforms m : spec_wf m = true -> conforming_decode m = true ->
  exists o d, py_decode (msg_is_request m) (spec_pdu m) = Ok o /\ class_of o = spec_class m /\ abs o = Some d /\ msg_matches m d = true.
Proof.
  intros Hwf Hc. change (dec_ok m). destruct m; try discriminate Hc.
  - now apply dec_ReadCoilsReq.
  - now apply dec_ReadDiscreteReq.
  - now apply dec_ReadHoldingReq.
  - now apply dec_ReadInputReq.
  - now apply dec_WriteCoilReq.
  - now apply dec_WriteRegReq.
  - apply dec_empty_reqs.
  - cbn [conforming_decode] in Hc. destruct data as [|w [|w2 t]]; try discriminate Hc. now apply dec_DiagReq1.
  - apply dec_empty_reqs.
  - apply dec_empty_reqs.
  - now apply dec_WriteCoilsReq.
  - now apply dec_WriteRegsReq.
  - apply dec_empty_reqs.
  - now apply dec_ReadFileReq.
  - now apply (dec_write_file MWriteFileReq WriteFileRecordRequest true); [left|].
  - now apply dec_MaskWriteReq.
  - now apply dec_ReadWriteRegsReq.
  - now apply dec_ReadFifoReq.
  - now apply dec_ReadDevIdReq.
  - now apply dec_ReadCoilsRsp.
  - now apply dec_ReadDiscreteRsp.
  - now apply dec_ReadHoldingRsp.
  - now apply dec_ReadInputRsp.
  - now apply dec_WriteCoilRsp.
  - now apply dec_WriteRegRsp.
  - now apply dec_ReadExcStatusRsp.
  - now apply dec_DiagRsp.
  - now apply dec_CommEventCounterRsp.
  - now apply dec_CommEventLogRsp.
  - now apply dec_WriteCoilsRsp.
  - now apply dec_WriteRegsRsp.
  - now apply (dec_write_file MWriteFileRsp WriteFileRecordResponse false); [right|].
  - now apply dec_MaskWriteRsp.
  - now apply dec_ReadWriteRegsRsp.
  - now apply dec_ReadDevIdRsp.
  - now apply dec_Exception.
Qed.

(* ---- explicit decoded objects of the write requests, and the wire-derived attributes -------------- *)

Theorem dec_fc15_explicit a cs : spec_wf (MWriteCoilsReq a cs) = true ->
  py_decode true (spec_pdu (MWriteCoilsReq a cs)) = Ok (OWriteCoilsReq a cs (bit_byte_count (len cs))).
Proof.
  intros Hwf. pose proof Hwf as H. cbn [spec_wf] in H. split_andb H.
  dec_open.
  change (u16 a ++ u16 (len cs) ++ u8 (bit_byte_count (len cs)) ++ spec_pack_bits cs)
    with ((u16 a ++ u16 (len cs) ++ u8 (bit_byte_count (len cs))) ++ spec_pack_bits cs).
  rewrite bslice_prefix by reflexivity. rewrite skipn_prefix by reflexivity.
  unfold upk. rewrite unpack_HHB by assumption. cbn [bind].
  rewrite py_unpack_spec. unfold len at 1. rewrite Nat2Z.id, firstn_unpack_pack. reflexivity.
Qed.

Theorem dec_fc16_explicit a rs : spec_wf (MWriteRegsReq a rs) = true ->
  py_decode true (spec_pdu (MWriteRegsReq a rs)) = Ok (OWriteRegsReq a rs (len rs) (2 * len rs)).
Proof.
  intros Hwf. pose proof Hwf as H. cbn [spec_wf] in H. split_andb H. pose proof (u8_len_u16 rs H1) as Hl.
  dec_open.
  change (u16 a ++ u16 (len rs) ++ u8 (2 * len rs) ++ words rs) with ((u16 a ++ u16 (len rs) ++ u8 (2 * len rs)) ++ words rs).
  rewrite bslice_prefix by reflexivity. rewrite skipn_prefix by reflexivity.
  unfold upk. rewrite unpack_HHB by assumption. cbn [bind].
  replace (len rs * 2 + 5) with (5 + 2 * len rs) by lia. rewrite range_len_2 by apply len_nonneg.
  rewrite read_words_words by assumption. reflexivity.
Qed.

Theorem dec_fc23_explicit ra rq wa ws : spec_wf (MReadWriteRegsReq ra rq wa ws) = true ->
  py_decode true (spec_pdu (MReadWriteRegsReq ra rq wa ws)) = Ok (ORWReq ra rq wa ws (len ws) (2 * len ws)).
Proof.
  intros Hwf. pose proof Hwf as H. cbn [spec_wf] in H. split_andb H. pose proof (u8_len_u16 ws H1) as Hl.
  dec_open.
  change (u16 ra ++ u16 rq ++ u16 wa ++ u16 (len ws) ++ u8 (2 * len ws) ++ words ws)
    with ((u16 ra ++ u16 rq ++ u16 wa ++ u16 (len ws) ++ u8 (2 * len ws)) ++ words ws).
  rewrite bslice_prefix by reflexivity. rewrite skipn_prefix by reflexivity.
  unfold upk. rewrite unpack_HHHHB by assumption. cbn [bind].
  replace (2 * len ws + 9) with (9 + 2 * len ws) by lia. rewrite range_len_2 by apply len_nonneg.
  rewrite read_words_words by assumption. reflexivity.
Qed.

Lemma dec_bits_explicit c cs (K : list bool -> msg) :
  (c = ReadCoilsResponse /\ K = MReadCoilsRsp) \/ (c = ReadDiscreteInputsResponse /\ K = MReadDiscreteRsp) ->
  spec_wf (K cs) = true ->
  py_decode false (spec_pdu (K cs)) = Ok (OBitsRsp c (spec_unpack_bits (spec_pack_bits cs)) (Some (bit_byte_count (len cs)))).
Proof.
  intros Hk Hwf.
  assert (Hw : is_u8 (bit_byte_count (len cs)) = true) by (destruct Hk as [[-> ->]|[-> ->]]; exact Hwf).
  destruct Hk as [[-> ->]|[-> ->]]; dec_open; unfold u8; cbn [app data0 bind skipn]; rewrite py_unpack_spec;
    unfold reclass; cbn [obj_sub class_of]; unfold is_u8 in Hw; rewrite Z2N.id by lia; reflexivity.
Qed.

Lemma dec_mei_explicit c cf more next objs :
  spec_wf (MReadDevIdRsp c cf more next objs) = true -> conforming_decode (MReadDevIdRsp c cf more next objs) = true ->
  py_decode false (spec_pdu (MReadDevIdRsp c cf more next objs)) = Ok (OMeiRsp 14 c cf more next (len objs) (map one objs) None).
Proof.
  intros Hwf Hc. pose proof Hwf as H. cbn [spec_wf] in H. split_andb H.
  cbn [conforming_decode] in Hc. apply andb_true_iff in Hc as [Hd Hfit].
  dec_open.
  set (hdr := u8 14 ++ u8 c ++ u8 cf ++ u8 more ++ u8 next ++ u8 (len objs)).
  change (14%N :: u8 c ++ u8 cf ++ u8 more ++ u8 next ++ u8 (len objs) ++ flat_map object_bytes objs)
    with (hdr ++ flat_map object_bytes objs).
  rewrite bslice_prefix by reflexivity. rewrite skipn_prefix by reflexivity.
  unfold upk, hdr. rewrite unpack_B6 by (assumption || reflexivity). cbn [bind].
  rewrite dec_mei_objs_spec; [|exact H0| |].
  2:{ cbn [keys_of map]. apply distinct_fresh; [exact Hd|]. apply forallb_forall. intros; reflexivity. }
  2:{ rewrite app_length. change (length (u8 14 ++ u8 c ++ u8 cf ++ u8 more ++ u8 next ++ u8 (len objs))) with 6%nat.
      assert (G : forall l : list (Z * bytes), (length l <= length (flat_map object_bytes l))%nat).
      { induction l as [|o t IHt]; [cbn; lia|]. cbn [flat_map length]. rewrite app_length.
        unfold object_bytes at 1. rewrite !app_length. cbn [u8 length]. lia. }
      specialize (G objs). lia. }
  cbn [bind app]. unfold reclass. cbn [obj_sub class_of]. tab. cbv beta iota.
  match goal with |- context [lookup_sub ?t ?f ?s] => destruct (lookup_sub t f s) end; reflexivity.
Qed.

(* every attribute that decode() takes from the wire and [abs] does not look at holds the wire's value *)
Theorem decode_wire_attrs m o : spec_wf m = true -> conforming_decode m = true ->
  py_decode (msg_is_request m) (spec_pdu m) = Ok o -> wire_attrs_ok m o = true.
Proof.
  intros Hwf Hc H. destruct m; try discriminate Hc; try reflexivity; cbn [msg_is_request] in H.
  - rewrite (dec_fc15_explicit _ _ Hwf) in H. injection H as <-. cbn [wire_attrs_ok]. apply Z.eqb_refl.
  - rewrite (dec_bits_explicit ReadCoilsResponse coils MReadCoilsRsp (or_introl (conj eq_refl eq_refl)) Hwf) in H.
    injection H as <-. cbn [wire_attrs_ok option_eqb]. apply Z.eqb_refl.
  - rewrite (dec_bits_explicit ReadDiscreteInputsResponse inputs MReadDiscreteRsp (or_intror (conj eq_refl eq_refl)) Hwf) in H.
    injection H as <-. cbn [wire_attrs_ok option_eqb]. apply Z.eqb_refl.
  - rewrite (dec_mei_explicit _ _ _ _ _ Hwf Hc) in H. injection H as <-. cbn [wire_attrs_ok]. apply Z.eqb_refl.
Qed.
