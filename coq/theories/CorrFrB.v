(* CorrFrB.v — harness side for the RTU / binary framers and the CRC: case types and the
   check functions [chk_* : case -> bool * bool] = (model agrees with what the real code
   did, PROPERTY holds of what the real code did, judged by the spec side FrSpecB/Crc). *)
From PM.theories Require Import Base Expr Struct FrBCode Crc FrBCommon FrRtu FrBin FrSpecB.
From PM.Generated Require Import GenFramerB.
Open Scope list_scope.
Open Scope Z_scope.

Inductive fkind := KRtu | KBin.

Definition fexit_eqb (a b : fexit) : bool :=
  match a, b with
  | FOk, FOk => true
  | FExn x, FExn y => pyexn_eqb x y
  | _, _ => false           (* FOutOfFuel / FMissing never equal what the code did *)
  end.

Definition del_eqb (a b : delivered) : bool := bytes_eqb (fst a) (fst b) && (snd a =? snd b).
Definition dels_eqb (a b : list delivered) : bool := list_eqb del_eqb a b.

Definition ohdr_eqb (a b : ohdr) : bool :=
  let '(u1, l1, c1) := a in let '(u2, l2, c2) := b in
  option_eqb Z.eqb u1 u2 && option_eqb Z.eqb l1 l2 && option_eqb (list_eqb Z.eqb) c1 c2.

(* what is observed after one processIncomingPacket call *)
Record obs := { o_del : list delivered; o_exit : fexit; o_buf : bytes; o_hdr : ohdr }.

Definition obs_eqb (a b : obs) : bool :=
  dels_eqb (o_del a) (o_del b) && fexit_eqb (o_exit a) (o_exit b)
  && bytes_eqb (o_buf a) (o_buf b) && ohdr_eqb (o_hdr a) (o_hdr b).

Record scase := {
  sc_kind : fkind;
  sc_client : bool;                 (* ClientDecoder (responses) or ServerDecoder (requests) *)
  sc_units : list Z; sc_single : bool;
  sc_reset : bool;                  (* the caller resets the framer after an escaped exception,
                                       as the serial-style server handlers do *)
  sc_dec : list (bytes * dres);     (* recorded decoder.decode outcomes *)
  sc_chunks : list bytes;
  sc_obs : list obs
}.

Inductive fstate := SR (s : rstate) | SB (s : bstate).

Definition cfg_of (c : scase) : fcfg :=
  {| cf_dec := dec_of (sc_dec c);
     cf_rules := if sc_client c then client_decoder else server_decoder;
     cf_units := sc_units c; cf_single := sc_single c |}.

Definition init_of (k : fkind) : fstate := match k with KRtu => SR rtu_init | KBin => SB bin_init end.

Definition step (cfg : fcfg) (reset : bool) (st : fstate) (chunk : bytes) : fstate * obs :=
  match st with
  | SR s =>
      let '(s1, ds, x) := rtu_recv cfg s chunk in
      let s2 := match x with FOk => s1 | _ => if reset then rtu_reset s1 else s1 end in
      (SR s2, {| o_del := ds; o_exit := x; o_buf := r_buf s2; o_hdr := rtu_obs_hdr s2 |})
  | SB s =>
      let '(s1, ds, x) := bin_recv cfg s chunk in
      let s2 := match x with FOk => s1 | _ => if reset then bin_reset s1 else s1 end in
      (SB s2, {| o_del := ds; o_exit := x; o_buf := b_buf s2; o_hdr := bin_obs_hdr s2 |})
  end.

Fixpoint run_model (cfg : fcfg) (reset : bool) (st : fstate) (chunks : list bytes) : list obs :=
  match chunks with
  | [] => []
  | c :: t => let '(st', o) := step cfg reset st c in o :: run_model cfg reset st' t
  end.

Definition model_agrees (c : scase) : bool :=
  list_eqb obs_eqb (run_model (cfg_of c) (sc_reset c) (init_of (sc_kind c)) (sc_chunks c)) (sc_obs c).

Definition all_del (os : list obs) : list delivered := flat_map o_del os.
Definition no_exn (os : list obs) : bool :=
  forallb (fun o => match o_exit o with FOk => true | _ => false end) os.

Definition wf_case (c : scase) : bool :=
  forallb wfb (sc_chunks c) && Nat.eqb (length (sc_chunks c)) (length (sc_obs c)).

(* ---- CRC cases: (data, what computeCRC returned, check value offered, what checkCRC returned) *)
Definition chk_crc (c : bytes * Z * Z * bool) : bool * bool :=
  let '(data, got, k, gotk) := c in
  (wfb data && res_eqb Z.eqb (py_crc data) (Ok got) && res_eqb Bool.eqb (py_check_crc data k) (Ok gotk),
   (* property: the value is the bitwise CRC-16/Modbus, exchanged so that '>H' sends the low byte first *)
   (got =? Z.of_N (swap16 (crc16_bitwise data))) && Bool.eqb gotk (k =? Z.of_N (swap16 (crc16_bitwise data)))).

(* ---- RTU frame-size oracle cases: (client?, frame as built, what calculateRtuFrameSize returned) *)
Definition sz_eqb (a b : res Z) : bool := res_eqb Z.eqb a b.

Definition chk_size (c : bool * bytes * res Z) : bool * bool :=
  let '(client, frame, got) := c in
  let dc := if client then client_decoder else server_decoder in
  let m := match frame with
           | _ :: fc :: _ => frame_size (lookup_rule dc (zb fc)) frame
           | _ => Raise IndexError
           end in
  (sz_eqb m got,
   (* property: the oracle returns the true length of the frame *)
   sz_eqb got (Ok (zlen frame))).

(* ---- C03: build + whole-frame round trip *)
Record bcase := {
  bk_uid : Z; bk_fc : Z; bk_data : bytes;        (* message.unit_id, .function_code, .encode() *)
  bk_packet : res bytes;                          (* what buildPacket returned / raised *)
  bk_rx : scase                                   (* the packet handed whole to a fresh receiver *)
}.

Definition chk_c03 (c : bcase) : bool * bool :=
  let rx := bk_rx c in
  let built := match sc_kind rx with
               | KRtu => rtu_build (bk_uid c) (bk_fc c) (bk_data c)
               | KBin => bin_build (bk_uid c) (bk_fc c) (bk_data c)
               end in
  let pdu := Z.to_N (bk_fc c) :: bk_data c in
  let spec := match sc_kind rx with
              | KRtu => spec_adu_rtu (Z.to_N (bk_uid c)) pdu
              | KBin => spec_adu_binary (Z.to_N (bk_uid c)) pdu
              end in
  (wfb (bk_data c) && wf_case rx && res_eqb bytes_eqb built (bk_packet c) && model_agrees rx,
   res_eqb bytes_eqb (bk_packet c) (Ok spec)
   && dels_eqb (all_del (sc_obs rx)) [(pdu, bk_uid c)] && no_exn (sc_obs rx)).

(* ---- C06: a stream of valid frames cut into chunks; [frames] = the messages sent *)
Definition chk_c06 (c : scase * list delivered) : bool * bool :=
  let '(s, frames) := c in
  (wf_case s && model_agrees s,
   dels_eqb (all_del (sc_obs s)) frames && no_exn (sc_obs s)).

(* ---- C07: every delivered message must be justified by a frame with a correct check
        somewhere in the bytes received (reference receiver = FrSpecB.justified_rtu, justified_binary) *)
Definition chk_c07 (s : scase) : bool * bool :=
  let stream := concat (sc_chunks s) in
  let just := match sc_kind s with KRtu => justified_rtu stream | KBin => justified_binary stream end in
  (wf_case s && model_agrees s,
   forallb (fun d => just (fst d) (snd d)) (all_del (sc_obs s))).

(* ---- C11: [ngarb] garbage reads, then reads of valid frames (each with its byte length).
        After [window] bytes of valid traffic every further valid frame must be delivered,
        in order, and the backlog after each such read stays within [window]. *)
Fixpoint subseq (need have : list delivered) : bool :=
  match need, have with
  | [], _ => true
  | _ :: _, [] => false
  | n :: need', h :: have' => if del_eqb n h then subseq need' have' else subseq need have'
  end.

(* frames that start at or after [window] bytes of valid traffic *)
Fixpoint must_deliver (window off : Z) (reads : list (list (delivered * Z))) : list delivered :=
  match reads with
  | [] => []
  | r :: t =>
      let fix go (off : Z) (fs : list (delivered * Z)) : list delivered * Z :=
        match fs with
        | [] => ([], off)
        | (d, n) :: fs' => let '(l, o) := go (off + n) fs' in
                           ((if window <=? off then [d] else []) ++ l, o)
        end in
      let '(l, off') := go off r in l ++ must_deliver window off' t
  end.

Fixpoint backlog_ok (window off : Z) (reads : list (list (delivered * Z))) (os : list obs) : bool :=
  match reads, os with
  | r :: t, o :: os' =>
      let n := fold_right (fun f a => snd f + a) 0 r in
      (if window <=? off then zlen (o_buf o) <=? window else true) && backlog_ok window (off + n) t os'
  | _, _ => true
  end.

Definition chk_c11 (c : scase * nat * Z * list (list (delivered * Z))) : bool * bool :=
  let '(s, ngarb, window, reads) := c in
  let after := skipn ngarb (sc_obs s) in
  (wf_case s && model_agrees s && Nat.eqb (length (sc_chunks s)) (ngarb + length reads),
   subseq (must_deliver window 0 reads) (all_del after) && backlog_ok window 0 reads after).
