(* EndToEnd.v — COMPOSITION of the component models into one executable model of the Modbus/TCP
   server path of pymodbus 2.4.0:

     bytes read from the socket
       -> socket framer          FrTcp.t_recv, decoder oracle := the Pdu model's ServerDecoder
       -> decoded request object Pdu.py_decode true
       -> request attributes     [req_of_obj]   (the only new glue: Pdu.obj -> Exec.req)
       -> request.execute        Exec.serve GenExec.code over the datastore model (Store, GenStore.code)
       -> handler.execute        Server.respond on the GENERATED skeleton of the front-end
                                 (broadcast test, except ladder, tid/uid copy, should_respond gate)
       -> response object        [obj_of_rsp]   (Exec.rsp -> Pdu.obj, what the response constructors build)
       -> response.encode        Pdu.py_encode / Pdu.obj_fc
       -> framer.buildPacket     FrTcp.t_build
       -> bytes written to the socket.

   Nothing is re-modelled here: every function above is the one the component properties
   C01/C03/C04/C06/C09 are stated about.  Written by hand here: [req_of_obj], [obj_of_rsp], the
   serving loop of the handler ([run_reads]: one framer call per read, stop on EOF / on an escaping
   exception) and the plumbing between the record types of the component developments.
   A branch that no run of the real code can reach in the modelled domain (a delivered PDU that
   does not decode, a response that cannot be encoded, a request class whose execute() is not
   modelled) is the distinguished result [Raise …] of [handle_one]; the run then reports
   [e_fault := Some …] — the theorems prove this does not happen.  No proofs in this file. *)
From PM.theories Require Import Base Expr Struct FrBaseA FrTcp PduCls Pdu Store Exec Server.
From PM.Generated Require Import GenFramerA GenPdu.
From PM.Generated Require GenStore GenExec GenServer.   (* not imported: GenExec names its scripts like the classes *)
Open Scope string_scope.
Open Scope list_scope.
Open Scope Z_scope.

(* ---------------------------------------------------------------- 1. the decoder the framer is given
   framer = self.server.framer(self.server.decoder): decoder.decode(pdu) of ServerDecoder, as the
   oracle type of the framer models (the message is represented by its function_code) *)
Definition e2e_dec (pdu : bytes) : dres :=
  match py_decode_wrapper true pdu with
  | Ok (Some o) => match obj_fc o with Ok fc => FrBaseA.DMsg fc | Raise e => FrBaseA.DRaise e end
  | Ok None => FrBaseA.DNone
  | Raise e => FrBaseA.DRaise e
  end.

(* ---------------------------------------------------------------- 2. request object -> attributes
   what request.execute reads from `self`, for the classes whose execute() Exec.v interprets
   (FC 1-6, 15, 16, 22, 23) and for IllegalFunctionRequest.  Coil values travel as 0/1. *)
Definition mk_req (fc address count value byte_count and_mask or_mask
                   read_address read_count write_address write_count write_byte_count : Z)
                  (values write_registers : list Z) : req :=
  {| r_fc := fc; r_address := address; r_count := count; r_value := value; r_byte_count := byte_count;
     r_and_mask := and_mask; r_or_mask := or_mask; r_read_address := read_address; r_read_count := read_count;
     r_write_address := write_address; r_write_count := write_count; r_write_byte_count := write_byte_count;
     r_values := values; r_write_registers := write_registers |}.

Definition read_req (fc : Z) (a : list (string * Z)) : option req :=
  match Pdu.assoc_str "address" a, Pdu.assoc_str "count" a with
  | Some x, Some n => Some (mk_req fc x n 0 0 0 0 0 0 0 0 0 [] [])
  | _, _ => None
  end.

Definition req_of_obj (o : obj) : option req :=
  match o with
  | OFixed ReadCoilsRequest a => read_req 1 a
  | OFixed ReadDiscreteInputsRequest a => read_req 2 a
  | OFixed ReadHoldingRegistersRequest a => read_req 3 a
  | OFixed ReadInputRegistersRequest a => read_req 4 a
  | OCoil WriteSingleCoilRequest x v => Some (mk_req 5 x 0 (b2z v) 0 0 0 0 0 0 0 0 [] [])
  | OWriteRegReq x v => Some (mk_req 6 x 0 v 0 0 0 0 0 0 0 0 [] [])
  | OWriteCoilsReq x vals bc => Some (mk_req 15 x 0 0 bc 0 0 0 0 0 0 0 (map b2z vals) [])
  | OWriteRegsReq x vals cnt bc => Some (mk_req 16 x cnt 0 bc 0 0 0 0 0 0 0 vals [])
  | OFixed MaskWriteRegisterRequest a =>
      match Pdu.assoc_str "address" a, Pdu.assoc_str "and_mask" a, Pdu.assoc_str "or_mask" a with
      | Some x, Some am, Some om => Some (mk_req 22 x 0 0 0 am om 0 0 0 0 0 [] [])
      | _, _, _ => None
      end
  | ORWReq ra rc wa regs wc wbc => Some (mk_req 23 0 0 0 0 0 0 ra rc wa wc wbc [] regs)
  | OIllegal fc => Some (req0 fc)
  | _ => None
  end.

(* ---------------------------------------------------------------- 3. response -> response object
   what `return XResponse(args)` / doException builds, as an object of the Pdu model.  A bit
   response keeps the datastore's values; encode tests their truth value (`if bit:`). *)
Definition truthy (v : Z) : bool := negb (v =? 0).

Definition obj_of_rsp (r : Exec.rsp) : option obj :=
  match r with
  | Exec.Exc fc code => Some (OExc (fc - 128) fc code)
  | Rsp cls args =>
      if String.eqb cls "ReadCoilsResponse" then
        match args with [VL v] => Some (OBitsRsp ReadCoilsResponse (map truthy v) None) | _ => None end
      else if String.eqb cls "ReadDiscreteInputsResponse" then
        match args with [VL v] => Some (OBitsRsp ReadDiscreteInputsResponse (map truthy v) None) | _ => None end
      else if String.eqb cls "ReadHoldingRegistersResponse" then
        match args with [VL v] => Some (ORegsRsp ReadHoldingRegistersResponse v) | _ => None end
      else if String.eqb cls "ReadInputRegistersResponse" then
        match args with [VL v] => Some (ORegsRsp ReadInputRegistersResponse v) | _ => None end
      else if String.eqb cls "ReadWriteMultipleRegistersResponse" then
        match args with [VL v] => Some (ORegsRsp ReadWriteMultipleRegistersResponse v) | _ => None end
      else if String.eqb cls "WriteSingleCoilResponse" then
        match args with [VZ a; VZ v] => Some (OCoil WriteSingleCoilResponse a (truthy v)) | _ => None end
      else if String.eqb cls "WriteSingleRegisterResponse" then
        match args with [VZ a; VZ v] => Some (OFixed WriteSingleRegisterResponse [("address", a); ("value", v)]) | _ => None end
      else if String.eqb cls "WriteMultipleCoilsResponse" then
        match args with [VZ a; VZ n] => Some (OFixed WriteMultipleCoilsResponse [("address", a); ("count", n)]) | _ => None end
      else if String.eqb cls "WriteMultipleRegistersResponse" then
        match args with [VZ a; VZ n] => Some (OFixed WriteMultipleRegistersResponse [("address", a); ("count", n)]) | _ => None end
      else if String.eqb cls "MaskWriteRegisterResponse" then
        match args with
        | [VZ a; VZ am; VZ om] => Some (OFixed MaskWriteRegisterResponse [("address", a); ("and_mask", am); ("or_mask", om)])
        | _ => None
        end
      else None
  end.

(* ---------------------------------------------------------------- 4. one delivered request *)
Definition e_std : ctxops slavectx := std_ops GenStore.code.
Definition e_serve (s : slavectx) (r : req) : slavectx * Exec.rsp := Exec.serve GenExec.code e_std s r.

(* what handler.execute sees of the object request.execute returned *)
Definition rsp_summary (ro : obj) (fc : Z) : Server.rsp :=
  {| rs_fc := fc; rs_respond := true;
     rs_code := match ro with OExc _ _ code => Some code | _ => None end |}.

(* request.execute(context) as the abstract effect of Server.dreq *)
Definition exec_effect (r : req) (s : slavectx) : slavectx * res Server.rsp :=
  let '(s', rp) := e_serve s r in
  match obj_of_rsp rp with
  | Some ro => match obj_fc ro with Ok fc => (s', Ok (rsp_summary ro fc)) | Raise e => (s', Raise e) end
  | None => (s', Raise NotImplementedExc)
  end.

Definition dreq_of (d : delivery) (fc : Z) (r : req) : dreq slavectx :=
  {| rq_tid := d_tid d; rq_uid := d_uid d; rq_fc := fc; rq_dest := 0; rq_exec := exec_effect r |}.

(* the object handed to send(): Server.out carries ids, function code and exception code but not the
   payload; the payload is that of the response execute() returned on the addressed unit's store (the
   one Server.respond executed on), or the ExceptionResponse the except ladder built *)
Definition response_obj (cfg : scfg) (l : units slavectx) (d : delivery) (r : req) (o : out) : res obj :=
  match o_code o with
  | Some code => Ok (OExc (o_fc o - 128) (o_fc o) code)
  | None =>
      match u_get slavectx l (ctx_key GenServer.code cfg (d_uid d)) with
      | None => Raise NoSuchSlaveExc
      | Some s => match obj_of_rsp (snd (e_serve s r)) with Some ro => Ok ro | None => Raise NotImplementedExc end
      end
  end.

(* Defaults.ProtocolId of a freshly constructed response (never copied from the request) *)
Definition dflt_pid : Z := 0.

(* send(message): framer.buildPacket(message) = header(tid, pid, len, uid, function_code) + message.encode() *)
Definition packet_of (o : out) (ro : obj) : res bytes :=
  do fc <- obj_fc ro;
  do data <- py_encode ro;
  t_build tcp (o_tid o) dflt_pid (o_uid o) fc data.

(* [pk] = send(message) of the front-end: framer.buildPacket of the framing in use *)
Definition packer := out -> obj -> res bytes.

Fixpoint packets_of (pk : packer) (cfg : scfg) (l : units slavectx) (d : delivery) (r : req) (os : list out) : res bytes :=
  match os with
  | [] => Ok []
  | o :: t =>
      do ro <- response_obj cfg l d r o;
      do p <- pk o ro;
      do q <- packets_of pk cfg l d r t;
      Ok (p ++ q)
  end.

(* the callback `self.execute(request)` on one delivery: new stores, bytes written *)
Definition handle_one (pk : packer) (sk : skel) (cfg : scfg) (l : units slavectx) (d : delivery) : res (units slavectx * bytes) :=
  do o <- py_decode true (d_pdu d);
  do fc <- obj_fc o;
  match req_of_obj o with
  | None => Raise NotImplementedExc                     (* a request class outside Exec.v *)
  | Some r =>
      let '(l', outs, exn) := respond slavectx GenServer.code sk cfg l (dreq_of d fc r) in
      match exn with
      | Some e => Raise e
      | None => do bs <- packets_of pk cfg l d r outs; Ok (l', bs)
      end
  end.

Fixpoint handle_all (pk : packer) (sk : skel) (cfg : scfg) (l : units slavectx) (ds : list delivery)
  : units slavectx * bytes * option pyexn :=
  match ds with
  | [] => (l, [], None)
  | d :: t =>
      match handle_one pk sk cfg l d with
      | Raise e => (l, [], Some e)
      | Ok (l1, b1) => let '(l2, b2, e) := handle_all pk sk cfg l1 t in (l2, b1 ++ b2, e)
      end
  end.

(* ---------------------------------------------------------------- 5. the serving loop
   handle(): units = context.slaves() (+ 0 when broadcast is enabled), single = context.single,
   framer.processIncomingPacket(data, self.execute, units, single=single) for every read. *)
Definition unit_cfg (sk : skel) (cfg : scfg) (keys : list Z) : FrBaseA.cfg :=
  {| c_units := unit_list sk cfg keys; c_single := Some (cf_single cfg) |}.
Definition framer_cfg (sk : skel) (cfg : scfg) (l : units slavectx) : FrBaseA.cfg :=
  unit_cfg sk cfg (u_keys slavectx l).

(* [ST] = the server state the callback works on (the hosted datastores; with the device control
   block in EndToEndExt.v), [FS] = the framer state *)
Record e2e_result (ST FS : Type) := {
  e_units : ST;                      (* the server state (datastores) afterwards *)
  e_out : bytes;                     (* everything written to the socket, in order *)
  e_framer : FS;                     (* framer state (buffered bytes) afterwards *)
  e_stop : option pyexn;             (* an exception escaped processIncomingPacket: the handler stopped / reset the frame *)
  e_fault : option pyexn             (* a branch outside the model was reached (never, in the proved domain) *)
}.
Arguments e_units {ST FS}. Arguments e_out {ST FS}. Arguments e_framer {ST FS}. Arguments e_stop {ST FS}. Arguments e_fault {ST FS}.

(* The two handler loops, generic in the server state [ST] (hosted unit ids [keys], callback on a
   delivery list [hall]) and in the framing ([recv]). *)
Section Loops.
Context {ST FS : Type}.
Variable keys : ST -> list Z.
Variable hall : ST -> list delivery -> ST * bytes * option pyexn.
Variable recv : FrBaseA.cfg -> FS -> bytes -> FS * list delivery * outc.
Variable sk : skel.
Variable cfg : scfg.

(* stream handlers (TCP).  [eof_on_empty]: the threaded handler takes recv() == b'' as end of stream
   and leaves its loop; the asyncio / Twisted callbacks have no such test.  An exception escaping the
   framer ends the threaded handler's loop (its catch-all clears `running`). *)
Fixpoint run_reads_g (eof_on_empty : bool) (st : FS) (l : ST) (chunks : list bytes) : e2e_result ST FS :=
  match chunks with
  | [] => {| e_units := l; e_out := []; e_framer := st; e_stop := None; e_fault := None |}
  | c :: cs =>
      if eof_on_empty && (match c with [] => true | _ => false end)
      then {| e_units := l; e_out := []; e_framer := st; e_stop := None; e_fault := None |}
      else
        let '(st1, ds, o) := recv (unit_cfg sk cfg (keys l)) st c in
        let '(l1, b1, flt) := hall l ds in
        match flt, o with
        | Some e, _ => {| e_units := l1; e_out := b1; e_framer := st1; e_stop := None; e_fault := Some e |}
        | None, Done =>
            let r := run_reads_g eof_on_empty st1 l1 cs in
            {| e_units := e_units r; e_out := b1 ++ e_out r; e_framer := e_framer r;
               e_stop := e_stop r; e_fault := e_fault r |}
        | None, FrBaseA.Exc e => {| e_units := l1; e_out := b1; e_framer := st1; e_stop := Some e; e_fault := None |}
        | None, OutOfFuel => {| e_units := l1; e_out := b1; e_framer := st1; e_stop := None; e_fault := Some OtherExc |}
        end
  end.

(* the serial handler (ModbusSingleRequestHandler.handle): `if data:` skips an empty read; an exception
   escaping the framer has reset the frame ([recv] includes the handler's resetFrame) and the loop goes on *)
Fixpoint run_serial_g (st : FS) (l : ST) (chunks : list bytes) : e2e_result ST FS :=
  match chunks with
  | [] => {| e_units := l; e_out := []; e_framer := st; e_stop := None; e_fault := None |}
  | [] :: cs => run_serial_g st l cs
  | c :: cs =>
      let '(st1, ds, o) := recv (unit_cfg sk cfg (keys l)) st c in
      let '(l1, b1, flt) := hall l ds in
      match flt, o with
      | Some e, _ => {| e_units := l1; e_out := b1; e_framer := st1; e_stop := None; e_fault := Some e |}
      | None, OutOfFuel => {| e_units := l1; e_out := b1; e_framer := st1; e_stop := None; e_fault := Some OtherExc |}
      | None, _ =>
          let r := run_serial_g st1 l1 cs in
          {| e_units := e_units r; e_out := b1 ++ e_out r; e_framer := e_framer r;
             e_stop := match o with FrBaseA.Exc e => Some e | _ => e_stop r end;   (* the first exception the ladder caught *)
             e_fault := e_fault r |}
      end
  end.
End Loops.

Definition run_reads (sk : skel) (cfg : scfg) (eof_on_empty : bool) (st : tstate) (l : units slavectx)
                     (chunks : list bytes) : e2e_result (units slavectx) tstate :=
  run_reads_g (u_keys slavectx) (handle_all packet_of sk cfg) (t_recv base tcp e2e_dec) sk cfg eof_on_empty st l chunks.

(* the Modbus/TCP server on one connection: front-end skeleton, configuration, hosted datastores,
   the reads -> final datastores and the bytes written *)
Definition tcp_server_run (sk : skel) (cfg : scfg) (eof_on_empty : bool) (l : units slavectx) (chunks : list bytes)
  : e2e_result (units slavectx) tstate :=
  run_reads sk cfg eof_on_empty (t_init tcp) l chunks.
