"""C04 add-on: the request classes that do not touch the datastore (FC 7, 8 + sub-functions, 11, 12, 17,
20, 21, 24) executed against the ModbusControlBlock singleton, mixed with data-access requests."""
import struct

from lib import common
from lib.coqrun import z, zlist, nat, boolean, lst
from lib.main import Case, Suite
from props import lib_exec as X
from props import lib_pdu as P

GENERATORS = ["exec_other"]
PROP_FILES = ["C04_other"]
CASE_DEPS = ["theories/CorrExecOther.vo", "Generated/GenExecOther.vo"]
TRUSTED = [
    "other_* suites, hand-modelled and tied by correspondence only: Device.v (ModbusControlBlock record and its "
    "operations; the method bodies are shape-checked by gen/gen_exec_other.py), ExecOther.build_rsp (what the "
    "response constructors do with their arguments), ExecOther.run_o; request/response objects are Pdu.obj (C01)",
    "generated from source on every run: the 25 execute() bodies of other_message.py / diag_message.py / "
    "file_message.py as scripts, counter property -> index table, response sub-function codes, ModbusStatus.On/Off "
    "(Generated/GenExecOther.v)",
    "spec side: ExecOtherSpec.v (MODBUS Application Protocol v1.1b3 sections 6.7-6.10, 6.13-6.15, 6.19)",
]
ASSUMPTIONS = ["the ModbusControlBlock singleton is reset by the harness between cases; identity values are str"]

IMPORTS = ("From PM.theories Require Import Base Expr Store PduCls Pdu Device Exec ExecSpec ExecView CorrExec "
           "ExecOther ExecOtherSpec ExecOtherView CorrExecOther.\n"
           "From PM.Generated Require GenStore GenExec GenExecOther.\n"
           "Open Scope string_scope.")
CHK = "chk_other GenStore.code GenExec.code GenExecOther.code"

COUNTERS = ["BusMessage", "BusCommunicationError", "BusExceptionError", "SlaveMessage", "SlaveNoResponse",
            "SlaveNAK", "SlaveBusy", "BusCharacterOverrun", "Event"]
IDENT = ["VendorName", "ProductCode", "MajorMinorRevision", "VendorUrl", "ProductName", "ModelName", "UserApplicationName"]


def mcb():
    from pymodbus.device import ModbusControlBlock
    return ModbusControlBlock()


def mcb_reset():
    m = mcb()
    m.reset()
    m.ListenOnly = False
    m.Delimiter = "\r"
    m.Plus.reset()
    for k in IDENT:
        setattr(m.Identity, k, "")
    return m


def nb(b):
    if isinstance(b, str):
        b = b.encode()
    return "[" + "; ".join(str(x) for x in bytes(b)) + "]%N"


def oterm(o):
    """Pdu.obj term of a message object (Pdu.OExc qualified: CorrExec has an OExc of its own)"""
    if type(o).__name__ == "GetCommEventLogResponse":      # execute passes the events as bytes
        return "(OEvLogRsp %s %s %s %s)" % (boolean(o.status), z(o.message_count), z(o.event_count),
                                           zlist(list(bytes(o.events))))
    return P.obj_term(o).replace("(OExc ", "(Pdu.OExc ")


def dump_device(m):
    from pymodbus.device import DeviceInformationFactory
    data = getattr(m.Counter, "_ModbusCountersHandler__data")
    plus = sum(getattr(m.Plus, "_ModbusPlusStatistics__data").values(), [])
    info = DeviceInformationFactory.get(m)
    return {"counters": [int(data[i]) for i in range(9)], "diag": [bool(b) for b in m.getDiagnosticRegister()],
            "events": [list(e.encode()) for e in m.Events], "listen": bool(m.ListenOnly),
            "delim": list(m.Delimiter.encode() if isinstance(m.Delimiter, str) else m.Delimiter),
            "plus": [int(v) for v in plus], "ident": [list(v.encode() if isinstance(v, str) else v) for v in info.values()]}


def device_term(d):
    return ("{| d_counters := %s; d_diag := %s; d_events := %s; d_listen := %s; d_delim := %s; d_plus := %s; d_ident := %s |}"
            % (zlist(d["counters"]), lst(boolean(b) for b in d["diag"]), lst(nb(bytes(e)) for e in d["events"]),
               boolean(d["listen"]), nb(bytes(d["delim"])), zlist(d["plus"]), lst(nb(bytes(v)) for v in d["ident"])))


def event_objs():
    from pymodbus import events as E
    return [lambda: E.RemoteReceiveEvent(overrun=True), lambda: E.RemoteReceiveEvent(listen=True),
            lambda: E.RemoteSendEvent(read=True, slave_busy=True), lambda: E.EnteredListenModeEvent(),
            lambda: E.CommunicationRestartEvent()]


def random_state(r, m):
    for i, name in enumerate(COUNTERS):
        k = r.random()
        if k < 0.5:
            continue
        setattr(m.Counter, name, r.choice([1, 2, 255, 256, 65535, r.randrange(65536)]))
    if r.random() < 0.5:
        m.Counter.Event = 0
    m.setDiagnostic({i: 1 for i in range(16) if r.random() < 0.3})
    for _ in range(r.choice([0, 0, 1, 3, 10, 66])):
        m.addEvent(r.choice(event_objs())())
    if r.random() < 0.4:
        m.Counter.Event = 0
    for k in IDENT[:3]:
        if r.random() < 0.5:
            setattr(m.Identity, k, r.choice(["pymodbus", "PM", "1.0", "ACME", "x-y"]))
    if r.random() < 0.3:
        pd = getattr(m.Plus, "_ModbusPlusStatistics__data")
        key = r.choice(list(pd.keys()))
        pd[key] = [r.randrange(256) for _ in pd[key]]


SUBS = [0, 1, 2, 3, 4, 10, 11, 12, 13, 14, 15, 16, 17, 18, 19, 20, 21]


def gen_other_pdu(r):
    k = r.random()
    if k < 0.3:
        return bytes([r.choice([7, 11, 12, 17])])
    if k < 0.85:
        sub = r.choice(SUBS + SUBS + [5, 9, 22, 100, 65535])
        data = r.choice([0, 0xFF00, 3, 4, 0x4100, 0x0A00, 1, 0xFFFF, r.randrange(65536)])
        if sub == 21:
            data = r.choice([3, 4, 3, 4, 5, 0])
        if sub == 4 and r.random() < 0.5:
            sub = 11
        return b"\x08" + struct.pack(">HH", sub, data)
    if k < 0.9:
        n = r.choice([0, 1, 2, 3])
        subs = b"".join(struct.pack(">BHHH", r.choice([6, 6, 6, 5]), r.randrange(1, 5), r.randrange(10), r.randrange(1, 4))
                        for _ in range(n))
        return b"\x14" + bytes([len(subs)]) + subs
    if k < 0.95:
        out = b""
        for _ in range(r.choice([1, 2])):
            ln = r.randrange(1, 4)
            out += struct.pack(">BHHH", r.choice([6, 6, 6, 5]), r.randrange(1, 5), r.randrange(10), ln)
            out += bytes(r.randrange(256) for _ in range(2 * ln))
        return b"\x15" + bytes([len(out)]) + out
    return b"\x18" + struct.pack(">H", r.choice([0, 1, 0x04DE, 65535, r.randrange(65536)]))


def other_history(r, idx, n, kind):
    m = mcb_reset()
    random_state(r, m)
    L = X.gen_layout(r, size=r.choice([2, 9, 20]))
    h = X.History(L, idx)
    dev0 = dump_device(m)
    items, desc = [], []
    n_other = 0
    from pymodbus.factory import ServerDecoder
    dec = ServerDecoder()
    for _ in range(n):
        k = r.random()
        if k < 0.3:
            w = X.gen_request(r, L, r.choice(X.DATA_FCS), valid=r.random() < 0.8)
            if h.request(w):
                items.append("XData (%s) %s (%s) %s" % (h.last_terms[0], h.last_terms[1],
                                                       h.last_terms[2].replace("OExc ", "CorrExec.OExc "), h.last_terms[3]))
                desc.append({"data": list(w), "response": list(h.last_obs)})
        elif k < 0.38:
            i = r.randrange(9)
            v = r.choice([0, 1, 255, 65535, r.randrange(65536)])
            setattr(m.Counter, COUNTERS[i], v)
            items.append("XSetCounter %s %s %s" % (nat(i), z(v), device_term(dump_device(m))))
            desc.append({"set_counter": [COUNTERS[i], v]})
        elif k < 0.45:
            ev = r.choice(event_objs())()
            m.addEvent(ev)
            items.append("XAddEvent %s %s" % (nb(ev.encode()), device_term(dump_device(m))))
            desc.append({"add_event": list(ev.encode())})
        else:
            pdu = gen_other_pdu(r)
            try:
                req = dec.decode(pdu)
            except Exception:  # noqa: BLE001 — a PDU that does not decode never reaches execute
                continue
            if req is None:
                continue
            try:
                qterm = oterm(req)
            except Exception:  # noqa: BLE001
                continue
            name, fn = h.fes[h.fe % len(h.fes)]
            h.fe += 1
            del h.h.sent[:]
            try:
                fn(h.h, req)
                if len(h.h.sent) != 1:
                    ot, shown = "ORaised OtherExc", "responses:%d" % len(h.h.sent)
                else:
                    ot, shown = "OSeen %s" % oterm(h.h.sent[-1]), type(h.h.sent[-1]).__name__
            except Exception as e:  # noqa: BLE001 — escaping exception / undumpable response
                from lib.pyx import pyexn
                ot, shown = "ORaised %s" % pyexn(e), "raised %s" % type(e).__name__
            items.append("XOther %s (%s) %s" % (qterm, ot, device_term(dump_device(m))))
            desc.append({"pdu": pdu.hex(), "front_end": name, "response": shown})
            n_other += 1
    h.dump()
    items.append(h.items[-1].replace("HDump", "XDump", 1))
    term = "(%s, %s, %s)" % (X.layout_term(L), device_term(dev0), lst(items))
    mcb_reset()
    return Case(term, {"layout": L, "device": dev0, "items": desc}, kind=kind, nontrivial=n_other > 0)


def suite_other(tier):
    r = common.rng("C04.other_mixed")
    n = 90 if tier == "quick" else 2500
    cases = [other_history(r, i, r.choice([4, 8, 16, 30]), "other-mixed") for i in range(n)]
    return Suite("other_mixed", IMPORTS, CHK, cases, shard=10)


def suites(tier):
    return [suite_other(tier)]


def classify(suite, desc):
    return None
