(* Base.v — conventions shared by every model file.
   Python values that can fail are [res]; exceptions are the small enum [pyexn].
   Bytes are [list N] (each < 256, guard [wfb]); integers are [Z].
   No proofs here beyond trivial boolean reflection helpers. *)
From Coq Require Export String.
From Coq Require Export ZArith NArith List Bool Lia.
Export ListNotations.
Open Scope Z_scope.

Inductive pyexn :=
| StructError | IndexError | KeyError | ValueError | BinasciiError | TypeError
| AttributeError | ZeroDivisionError | ModbusIOExc | InvalidMessageExc | NotImplementedExc
| NoSuchSlaveExc | ConnectionExc | ParameterExc | ModbusExc | OtherExc.

Definition pyexn_eqb (a b : pyexn) : bool :=
  match a, b with
  | StructError, StructError | IndexError, IndexError | KeyError, KeyError
  | ValueError, ValueError | BinasciiError, BinasciiError | TypeError, TypeError
  | AttributeError, AttributeError | ZeroDivisionError, ZeroDivisionError
  | ModbusIOExc, ModbusIOExc | InvalidMessageExc, InvalidMessageExc
  | NotImplementedExc, NotImplementedExc | NoSuchSlaveExc, NoSuchSlaveExc
  | ConnectionExc, ConnectionExc | ParameterExc, ParameterExc | ModbusExc, ModbusExc
  | OtherExc, OtherExc => true
  | _, _ => false
  end.

Inductive res (A : Type) := Ok (a : A) | Raise (e : pyexn).
Arguments Ok {A} a.
Arguments Raise {A} e.

Definition bind {A B} (r : res A) (f : A -> res B) : res B :=
  match r with Ok a => f a | Raise e => Raise e end.
Notation "'do' x <- r ; k" := (bind r (fun x => k))
  (at level 200, x name, r at level 100, k at level 200, right associativity).
Notation "'do' ' p <- r ; k" := (bind r (fun x => let p := x in k))
  (at level 200, p pattern, r at level 100, k at level 200, right associativity).

Definition res_eqb {A} (eqb : A -> A -> bool) (a b : res A) : bool :=
  match a, b with
  | Ok x, Ok y => eqb x y
  | Raise e, Raise f => pyexn_eqb e f
  | _, _ => false
  end.

Definition bytes := list N.
Definition byteb (b : N) : bool := (b <? 256)%N.
Definition wfb (bs : bytes) : bool := forallb byteb bs.

Fixpoint list_eqb {A} (eqb : A -> A -> bool) (l1 l2 : list A) : bool :=
  match l1, l2 with
  | [], [] => true
  | x :: xs, y :: ys => eqb x y && list_eqb eqb xs ys
  | _, _ => false
  end.

Definition option_eqb {A} (eqb : A -> A -> bool) (a b : option A) : bool :=
  match a, b with
  | Some x, Some y => eqb x y
  | None, None => true
  | _, _ => false
  end.

(* [zrange lo n] = [lo; lo+1; …; lo+n-1] *)
Fixpoint zrange (lo : Z) (n : nat) : list Z :=
  match n with O => [] | S k => lo :: zrange (lo + 1) k end.

(* Python's range(lo, hi) *)
Definition py_range (lo hi : Z) : list Z := zrange lo (Z.to_nat (hi - lo)).

(* Indices (0-based) of the cases whose check fails: used by generated case files. *)
Fixpoint fail_idx_from {A} (chk : A -> bool) (i : nat) (l : list A) : list nat :=
  match l with
  | [] => []
  | x :: xs => if chk x then fail_idx_from chk (S i) xs else i :: fail_idx_from chk (S i) xs
  end.
Definition fail_idx {A} (chk : A -> bool) (l : list A) : list nat := fail_idx_from chk O l.

(* indices of failing cases: (model disagreements, property failures) *)
Definition run_cases {A} (chk : A -> bool * bool) (l : list A) : list nat * list nat :=
  (fail_idx (fun c => fst (chk c)) l, fail_idx (fun c => snd (chk c)) l).
