(* FrA_stream_proofs.v — generic chunking argument shared by the TCP and ASCII halves of C06:
   if a receiver handles "buffer ++ read = whole frames ++ allowed partial frame" correctly
   in one call (the per-framer batch lemma), then feeding any division of a frame stream whose
   cut points are allowed delivers exactly the frames, in order. *)
From PM.theories Require Import Base FrBaseA.
Open Scope list_scope.

Section Stream.
Variable F : Type.
Variable adu : F -> bytes.
Hypothesis adu_ne : forall f, adu f <> [].

Definition stream (fs : list F) : bytes := concat (map adu fs).

Lemma stream_app a b : stream (a ++ b) = stream a ++ stream b.
Proof. unfold stream. rewrite map_app, concat_app. reflexivity. Qed.

(* p is empty, or a proper non-empty prefix of the first frame of fs *)
Definition partial (p : bytes) (fs : list F) : Prop :=
  p = [] \/ exists f rest q, fs = f :: rest /\ adu f = p ++ q /\ q <> [] /\ p <> [].

Lemma split_stream : forall fs (u v : bytes), u ++ v = stream fs ->
  exists fs1 fs2 p, fs = fs1 ++ fs2 /\ u = stream fs1 ++ p /\ p ++ v = stream fs2 /\ partial p fs2.
Proof.
  induction fs as [|f fs IH]; intros u v H.
  - cbn in H. apply app_eq_nil in H as [-> ->]. exists [], [], []. cbn. repeat split. now left.
  - change (stream (f :: fs)) with (adu f ++ stream fs) in H.
    apply app_eq_app in H as [l [[Hu Hs]|[Hf Hv]]].
    + (* u = adu f ++ l *)
      symmetry in Hs. destruct (IH l v Hs) as (fs1 & fs2 & p & -> & -> & Hp & Hpart).
      exists (f :: fs1), fs2, p. repeat split; try assumption.
      subst u. change (stream (f :: fs1)) with (adu f ++ stream fs1). now rewrite app_assoc.
    + (* adu f = u ++ l *)
      destruct l as [|x l].
      * rewrite app_nil_r in Hf. cbn in Hv. subst.
        exists [f], fs, []. repeat split.
        -- unfold stream. cbn. now rewrite !app_nil_r.
        -- now left.
      * destruct u as [|y u].
        -- exists [], (f :: fs), []. cbn. repeat split.
           ++ cbn in Hf. change (stream (f :: fs)) with (adu f ++ stream fs). now rewrite Hf, Hv.
           ++ now left.
        -- exists [], (f :: fs), (y :: u). repeat split.
           ++ change (stream (f :: fs)) with (adu f ++ stream fs). rewrite Hf, Hv. now rewrite <- app_assoc.
           ++ right. exists f, fs, (x :: l). repeat split; try assumption; discriminate.
Qed.

(* ---- a receiver with a batch lemma ---- *)
Variable St : Type.
Variable recv : St -> bytes -> St * list delivery * outc.
Variable bufof : St -> bytes.
Variable Inv : St -> Prop.
Variable dls : F -> list delivery.   (* what a frame contributes: its message, or nothing (unit not served) *)
Variable good : F -> Prop.
Variable okk : nat -> Prop.          (* allowed lengths of a non-empty buffered partial frame *)

Hypothesis batch : forall s c fs p rest,
  Inv s -> Forall good fs -> Forall good rest ->
  bufof s ++ c = stream fs ++ p -> partial p rest -> (p <> [] -> okk (length p)) ->
  (bufof s <> [] -> okk (length (bufof s))) ->
  exists s', recv s c = (s', flat_map dls fs, Done) /\ bufof s' = p /\ Inv s'.

Lemma feed_snoc s cs c :
  feed recv s (cs ++ [c]) =
  let '(s1, d1, ok1) := feed recv s cs in
  let '(s2, d2, o) := recv s1 c in
  (s2, d1 ++ d2, ok1 && match o with Done => true | _ => false end).
Proof.
  revert s. induction cs as [|x cs IH]; intros s.
  - cbn. destruct (recv s c) as [[s2 d2] o]. rewrite app_nil_r. destruct o; reflexivity.
  - cbn [app feed]. destruct (recv s x) as [[s1 ds] o1]. rewrite IH.
    destruct (feed recv s1 cs) as [[s2 d2] ok2]. destruct (recv s2 c) as [[s3 d3] o3].
    rewrite app_assoc. destruct o1, o3, ok2; reflexivity.
Qed.

Theorem feed_stream : forall frames chunks s0,
  Inv s0 -> bufof s0 = [] -> Forall good frames ->
  concat chunks = stream frames ->
  (forall cs1 cs2 k, chunks = cs1 ++ cs2 -> cut_inside (map adu frames) (length (concat cs1)) k -> okk k) ->
  exists s', feed recv s0 chunks = (s', flat_map dls frames, true).
Proof.
  intros frames chunks s0 Hinv0 Hb0 Hgood Hcat Hcuts.
  (* stronger statement on every prefix of the chunk list, by snoc induction *)
  assert (G : forall cs1 cs2, chunks = cs1 ++ cs2 ->
            exists fs1 fs2 p s, frames = fs1 ++ fs2 /\ concat cs1 = stream fs1 ++ p /\ partial p fs2 /\
              feed recv s0 cs1 = (s, flat_map dls fs1, true) /\ bufof s = p /\ Inv s /\ (p <> [] -> okk (length p))).
  { induction cs1 as [|c cs1 IH] using rev_ind; intros cs2 Hsplit.
    - exists [], frames, [], s0. cbn. repeat split; try assumption; try (now left). intros H; now elim H.
    - rewrite <- app_assoc in Hsplit. cbn in Hsplit.
      destruct (IH (c :: cs2) Hsplit) as (fs1 & fs2 & p & s & Hfr & Hc1 & Hpart & Hfeed & Hbuf & Hinv & Hokp).
      assert (Hrest : p ++ c ++ concat cs2 = stream fs2).
      { assert (H1 : concat chunks = concat cs1 ++ c ++ concat cs2).
        { rewrite Hsplit, concat_app. reflexivity. }
        rewrite Hcat, Hfr, stream_app, Hc1, <- app_assoc in H1.
        apply app_inv_head in H1. symmetry. exact H1. }
      rewrite app_assoc in Hrest.
      destruct (split_stream fs2 (p ++ c) (concat cs2) Hrest) as (g1 & g2 & p' & Hg & Hpc & Hp' & Hpart').
      assert (Hgood12 : Forall good g1 /\ Forall good g2).
      { rewrite Hfr, Hg in Hgood. apply Forall_app in Hgood as [_ Hg12]. now apply Forall_app in Hg12. }
      assert (Hok' : p' <> [] -> okk (length p')).
      { intros Hne. destruct Hpart' as [->|(f & rest & q & Hg2 & Hadu & Hq & _)]; [now elim Hne|].
        apply (Hcuts (cs1 ++ [c]) cs2 (length p')).
        - rewrite <- app_assoc. exact Hsplit.
        - exists (map adu (fs1 ++ g1)), (adu f), (map adu rest). repeat split.
          + rewrite Hfr, Hg, Hg2, !map_app. cbn [map]. now rewrite <- app_assoc.
          + rewrite concat_app. cbn [concat]. rewrite app_nil_r, Hc1.
            fold (stream (fs1 ++ g1)). rewrite stream_app.
            rewrite <- !app_assoc in *. rewrite !app_length.
            assert (Hl : length (p ++ c) = length (stream g1 ++ p')) by now rewrite Hpc.
            rewrite !app_length in Hl. lia.
          + destruct p'; [now elim Hne|cbn; lia].
          + rewrite Hadu, app_length. destruct q; [now elim Hq|cbn; lia]. }
      destruct (batch s c g1 p' g2 Hinv (proj1 Hgood12) (proj2 Hgood12)) as (s' & Hrecv & Hbuf' & Hinv').
      { rewrite Hbuf. exact Hpc. }
      { exact Hpart'. }
      { exact Hok'. }
      { rewrite Hbuf. exact Hokp. }
      exists (fs1 ++ g1), g2, p', s'. repeat split; try assumption.
      + rewrite Hfr, Hg, app_assoc. reflexivity.
      + rewrite concat_app. cbn [concat]. rewrite app_nil_r, Hc1, stream_app, <- !app_assoc.
        f_equal. exact Hpc.
      + rewrite feed_snoc, Hfeed, Hrecv, flat_map_app. reflexivity. }
  destruct (G chunks [] (eq_sym (app_nil_r chunks))) as (fs1 & fs2 & p & s & Hfr & Hc & Hpart & Hfeed & Hbuf & _ & _).
  (* the whole stream has been given: nothing is left *)
  assert (Hnil : p ++ [] = stream fs2).
  { rewrite Hcat, Hfr, stream_app in Hc. rewrite app_nil_r.
    apply app_inv_head in Hc. symmetry. exact Hc. }
  rewrite app_nil_r in Hnil.
  assert (fs2 = []).
  { destruct Hpart as [->|(f & rest & q & Hf2 & Hadu & Hq & Hp)].
    - destruct fs2 as [|f fs2]; [reflexivity|]. exfalso.
      change (stream (f :: fs2)) with (adu f ++ stream fs2) in Hnil.
      symmetry in Hnil. apply app_eq_nil in Hnil as [Hn _]. now apply (adu_ne f).
    - exfalso. subst fs2. change (stream (f :: rest)) with (adu f ++ stream rest) in Hnil.
      rewrite Hadu, <- app_assoc in Hnil.
      rewrite <- (app_nil_r p) in Hnil at 1. apply app_inv_head in Hnil.
      symmetry in Hnil. apply app_eq_nil in Hnil as [Hn _]. now apply Hq. }
  subst fs2. rewrite app_nil_r in Hfr. subst fs1. exists s. exact Hfeed.
Qed.

End Stream.
