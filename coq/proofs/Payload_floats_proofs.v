(* Payload_floats_proofs.v — float VALUES (Flocq's IEEE-754 binary16/32/64, including
   zeros, subnormals, infinities and NaNs with payload) through the payload model.
   Kept apart from Payload_proofs.v because Flocq's [binary_float_of_bits_of_binary_float]
   depends on classical axioms of the real-number library; the bit-pattern theorems stay
   axiom-free.  The Python side of this step (struct.pack('f', x)) is NOT modelled: this
   file says that IF struct maps a float to its IEEE bit pattern and back, the float value
   survives the builder / decoder under every order pair. *)
From PM.theories Require Import Base Struct Payload.
From PM.proofs Require Import Struct_proofs Payload_proofs.
From Flocq Require Import IEEE754.Binary IEEE754.Bits.
Open Scope list_scope.
Open Scope Z_scope.

Definition binary16 := binary_float 11 16.
Definition b16_of_bits : Z -> binary16 := binary_float_of_bits 10 5 (refl_equal _) (refl_equal _) (refl_equal _).
Definition bits_of_b16 : binary16 -> Z := bits_of_binary_float 10 5.

Inductive fvalue := FV16 (x : binary16) | FV32 (x : binary32) | FV64 (x : binary64).

(* struct.pack('e'/'f'/'d') as the IEEE encoding *)
Definition value_of_float (f : fvalue) : value :=
  match f with
  | FV16 x => F16 (bits_of_b16 x)
  | FV32 x => F32 (bits_of_b32 x)
  | FV64 x => F64 (bits_of_b64 x)
  end.

(* struct.unpack('e'/'f'/'d') as the IEEE decoding *)
Definition float_of_value (v : value) : option fvalue :=
  match v with
  | VNum KF16 w => Some (FV16 (b16_of_bits w))
  | VNum KF32 w => Some (FV32 (b32_of_bits w))
  | VNum KF64 w => Some (FV64 (b64_of_bits w))
  | _ => None
  end.

Lemma float_value_wf f : wf_value (value_of_float f) = true.
Proof.
  destruct f as [x|x|x]; cbn [value_of_float wf_value F16 F32 F64]; unfold in_kind_range; cbn [kind_signed kind_width].
  - pose proof (bits_of_binary_float_range 10 5 (refl_equal _) (refl_equal _) x) as H.
    unfold bits_of_b16. change (2 ^ (10 + 5 + 1)) with 65536 in H. change (2 ^ (8 * Z.of_nat 2)) with 65536. lia.
  - pose proof (bits_of_binary_float_range 23 8 (refl_equal _) (refl_equal _) x) as H.
    unfold bits_of_b32. change (2 ^ (23 + 8 + 1)) with 4294967296 in H. change (2 ^ (8 * Z.of_nat 4)) with 4294967296. lia.
  - pose proof (bits_of_binary_float_range 52 11 (refl_equal _) (refl_equal _) x) as H.
    unfold bits_of_b64. change (2 ^ (52 + 11 + 1)) with 18446744073709551616 in H.
    change (2 ^ (8 * Z.of_nat 8)) with 18446744073709551616. lia.
Qed.

Lemma float_of_value_of_float f : float_of_value (value_of_float f) = Some f.
Proof.
  destruct f as [x|x|x]; cbn [value_of_float float_of_value F16 F32 F64]; do 2 f_equal.
  - apply (binary_float_of_bits_of_binary_float 10 5).
  - apply (binary_float_of_bits_of_binary_float 23 8).
  - apply (binary_float_of_bits_of_binary_float 52 11).
Qed.

Theorem float_values_roundtrip bo wo fs :
  let vs := map value_of_float fs in
  exists s vs', to_string code bo wo vs = Ok s /\
    decode_seq code bo wo (types vs) s = Ok (vs', length s) /\
    map float_of_value vs' = map Some fs.
Proof.
  intros vs.
  assert (Hwf : wf_values vs = true).
  { unfold vs, wf_values. induction fs as [|f fs IH]; [reflexivity|]. cbn [map forallb]. now rewrite float_value_wf, IH. }
  destruct (roundtrip_code bo wo vs Hwf) as (s & Hs & Hd).
  exists s, vs. repeat split; try assumption.
  unfold vs. rewrite map_map. apply map_ext. intros f. apply float_of_value_of_float.
Qed.
