(* ClientRtu_ready_proofs.v — table invariant and readiness for the serial RTU client over the concrete RTU framer. *)
From Coq Require Import ZifyBool.
From PM.theories Require Import Base Expr Struct FrBCode Crc FrBCommon FrRtu FrSpecB.
From PM.Generated Require Import GenFramerB GenClient.
From PM.proofs Require Import Struct_proofs Crc_proofs FrB_rtu_proofs FrB_rtu_client_proofs.
From PM.theories Require Import Client CorrClient.
From PM.proofs Require Import Client_proofs Client_reads_proofs ClientRtu_proofs.
Open Scope list_scope.
Open Scope Z_scope.

Section RtuReady.
Variable dec : bytes -> FrBCommon.dres.
Hypothesis dec_total : forall pdu, dec pdu = FrBCommon.DMsg \/ dec pdu = FrBCommon.DNone.
Notation F := (rtu_framer dec dec_total).

(* on a read without two CRC-valid frames a raising processIncomingPacket has delivered nothing *)
Lemma rtu_proc_clean_read fs resp u fs' ms e :
  f_nonempty F fs = false -> ~ two_frames resp -> f_process F fs resp u = (fs', ms, Some e) -> ms = [].
Proof.
  intros Hne H2 H. cbn [rtu_framer f_nonempty] in Hne.
  assert (Hb : r_buf (rs_st fs) = []) by (destruct (r_buf (rs_st fs)); [reflexivity|discriminate]).
  destruct (wfb resp) eqn:Hw.
  - destruct (rtu_process_spec dec dec_total fs resp u fs' ms (Some e) Hw H) as (ds & x & R & -> & Hx).
    rewrite (rtu_one_frame_clean (ucfg dec u) (rs_st fs) resp (rs_st fs') ds x client_simple_ok); try assumption; try reflexivity.
    + rewrite Hb. exact Hw.
    + exact (rs_inv fs).
    + rewrite Hb. exact H2.
    + intro Hx'. subst x. discriminate.
  - rewrite rtu_process_nonbytes in H by exact Hw. inversion H.
Qed.

(* the table stays empty when no read of the call's script holds two CRC-valid frames one behind the other *)
Theorem execute_tx_rtu c st rq sc st' o :
  s_tx st = [] -> (forall resp, built_from sc resp -> ~ two_frames resp) ->
  execute code rok F c st rq sc = (st', o) -> s_tx st' = [].
Proof.
  intros Htx H2 H. eapply (execute_tx_reads rok F); try eassumption.
  - exact (rtu_reset_empties dec dec_total).
  - intros fs resp fs' ms e Hne Hb Hp. eapply rtu_proc_clean_read; try eassumption. apply H2, Hb.
Qed.

Theorem ready_rtu c st rq1 faults st1 o1 rq (u fcb : N) data rest :
  c_framing c = FRtu -> c_udp c = false -> s_tx st = [] ->
  (forall resp, built_from faults resp -> ~ two_frames resp) ->
  execute code rok F c st rq1 faults = (st1, o1) ->
  c_bcast c && (r_unit rq =? 0) = false -> 0 <= retries_given c ->
  Z.of_N u = r_unit rq -> valid_frame (ucfg dec (r_unit rq)) true u (fcb :: data) ->
  fits (exp_of c rq) (spec_adu_rtu u (fcb :: data)) ->
  (128 <= Z.of_N fcb -> length data = 1%nat) ->
  exists st2 o2,
    execute code rok F c st1 rq
      ((if s_conn st1 then [] else [Nothing])
         ++ attempt true (rtu_script (full_of rok c st1 rq) (spec_adu_rtu u (fcb :: data))) ++ rest) = (st2, o2)
    /\ o_res o2 = RReply (rmsg_of (fcb :: data, r_unit rq)) /\ s_tx st2 = [] /\ s_tid st2 = next_tid code (s_tid st1).
Proof.
  intros Hfr Hudp Htx H2 H1 Hb Hr Hu Hv Hfit Hexc.
  pose proof (execute_tx_rtu c st rq1 faults st1 o1 Htx H2 H1) as Htx1.
  exact (conformant_reply_rtu dec dec_total c st1 rq u fcb data rest Hfr Hudp Htx1 Hb Hr Hu Hv Hfit Hexc).
Qed.
End RtuReady.

(* ------------------------------------------------------------------ the hypotheses are satisfiable *)
Definition rdemo_dec (p : bytes) : FrBCommon.dres := match p with [] => FrBCommon.DNone | _ => FrBCommon.DMsg end.
Lemma rdemo_total : forall pdu, rdemo_dec pdu = FrBCommon.DMsg \/ rdemo_dec pdu = FrBCommon.DNone.
Proof. intros [|b t]; [right|left]; reflexivity. Qed.
Definition cfg_rtu_demo : Client.cfg :=
  {| c_framing := FRtu; c_udp := false; c_retries_kw := Some 1; c_roe := true; c_roi := true; c_bcast := false |}.
Definition rq_rtu : req := {| r_unit := 5; r_fc := 3; r_psize := Some 4; r_id := 0 |}.

Lemma rtu_example :
  exists st' o,
    execute code rok (rtu_framer rdemo_dec rdemo_total) cfg_rtu_demo
      (Build_cstate 65535 [] (rok_init) [] false) rq_rtu
      ([Nothing] ++ attempt true (rtu_script false (spec_adu_rtu 5 [3; 2; 0; 7]%N)) ++ []) = (st', o)
    /\ o_res o = RReply (rmsg_of ([3; 2; 0; 7]%N, 5)) /\ s_tx st' = [] /\ s_tid st' = 0.
Proof.
  destruct (conformant_reply_rtu rdemo_dec rdemo_total cfg_rtu_demo (Build_cstate 65535 [] rok_init [] false) rq_rtu
              5%N 3%N [2; 0; 7]%N []) as (st' & o & A & B & Cc & D); try reflexivity.
  - cbn; lia.
  - constructor; try reflexivity; try (intro; reflexivity).
    exists 3%N, [2; 0; 7]%N. repeat split; vm_compute; reflexivity.
  - vm_compute. discriminate.
  - cbn. lia.
  - exists st', o. repeat split; assumption.
Qed.
