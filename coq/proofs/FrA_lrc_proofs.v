(* FrA_lrc_proofs.v — computeLRC (as generated from utilities.py) is the specification LRC. *)
From PM.theories Require Import Base Expr FrBaseA Lrc.
From PM.Generated Require Import GenFramerA.
From Coq Require Import ZifyBool.
Open Scope list_scope.
Open Scope Z_scope.
Ltac Zify.zify_post_hook ::= Z.to_euclidean_division_equations.

Lemma land_255 x : Z.land x 255 = x mod 256.
Proof. change 255 with (Z.ones 8). rewrite Z.land_ones by lia. reflexivity. Qed.

Lemma lxor_255_nat : forall n : nat, (n < 256)%nat -> Z.lxor (Z.of_nat n) 255 = 255 - Z.of_nat n.
Proof.
  intros n H.
  do 256 (destruct n as [|n]; [vm_compute; reflexivity|]). exfalso. lia.
Qed.

Lemma lxor_255 x : 0 <= x < 256 -> Z.lxor x 255 = 255 - x.
Proof.
  intros H. rewrite <- (Z2Nat.id x) by lia. apply lxor_255_nat. lia.
Qed.

Lemma bsum_nonneg bs : 0 <= bsum bs.
Proof. induction bs as [|b t IH]; cbn [bsum fold_right]; [lia|]. fold (bsum t). lia. Qed.

Lemma bsum_app a b : bsum (a ++ b) = bsum a + bsum b.
Proof. induction a as [|x t IH]; cbn [bsum fold_right app]; [reflexivity|]. fold (bsum (t ++ b)) (bsum t). lia. Qed.

Lemma py_lrc_eval bs :
  py_lrc lrc bs = Z.land (Z.lxor (Z.land (bsum bs) 255) 255 + 1) 255.
Proof. reflexivity. Qed.

Theorem py_lrc_spec bs : py_lrc lrc bs = spec_lrc bs.
Proof.
  rewrite py_lrc_eval. unfold spec_lrc. rewrite !land_255.
  rewrite lxor_255 by (apply Z.mod_pos_bound; lia).
  pose proof (Z.mod_pos_bound (bsum bs) 256 ltac:(lia)). lia.
Qed.

Lemma py_check_lrc_eval data ck : py_check_lrc lrc data ck = z2b (b2z (py_lrc lrc data =? ck)).
Proof. reflexivity. Qed.

Lemma py_check_lrc_spec data ck : py_check_lrc lrc data ck = (spec_lrc data =? ck).
Proof.
  rewrite py_check_lrc_eval, py_lrc_spec. destruct (spec_lrc data =? ck); reflexivity.
Qed.

Lemma spec_lrc_range bs : 0 <= spec_lrc bs < 256.
Proof. unfold spec_lrc. apply Z.mod_pos_bound. lia. Qed.

Lemma spec_lrc_perm a b : spec_lrc (a ++ b) = spec_lrc (b ++ a).
Proof. unfold spec_lrc. rewrite !bsum_app. f_equal. f_equal. f_equal. lia. Qed.

(* the check characterises frames: sum of all bytes including the LRC is 0 mod 256 *)
Lemma spec_lrc_sum bs : (bsum bs + spec_lrc bs) mod 256 = 0.
Proof. unfold spec_lrc. pose proof (bsum_nonneg bs). lia. Qed.

(* ---- detection power: any change of a single byte (hence of a single hex character) of
   unit+PDU+LRC breaks the LRC equation ---- *)
Definition lrc_ok (m : bytes) : Prop := (bsum m) mod 256 = 0.

Lemma lrc_ok_iff body ck : (ck < 256)%N -> (lrc_ok (body ++ [ck]) <-> Z.of_N ck = spec_lrc body).
Proof.
  intros Hck. unfold lrc_ok, spec_lrc. rewrite bsum_app. cbn [bsum fold_right].
  pose proof (bsum_nonneg body) as Hnn. split; intros H; lia.
Qed.

Theorem lrc_single_byte pre post (x x' : N) :
  (x < 256)%N -> (x' < 256)%N -> x <> x' ->
  lrc_ok (pre ++ x :: post) -> ~ lrc_ok (pre ++ x' :: post).
Proof.
  unfold lrc_ok. intros Hx Hx' Hne H1 H2.
  rewrite !bsum_app in *. cbn [bsum fold_right] in *. fold (bsum post) in *. lia.
Qed.

(* a hex character determines its nibble: two different hex characters with different values
   give different bytes *)
Lemma hex_pair_inj x y x' y' :
  0 <= x < 16 -> 0 <= y < 16 -> 0 <= x' < 16 -> 0 <= y' < 16 ->
  16 * x + y = 16 * x' + y' -> x = x' /\ y = y'.
Proof. lia. Qed.
