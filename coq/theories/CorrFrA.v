(* CorrFrA.v — harness side for the socket/ASCII/TLS framers: case types, the comparison of
   the models (instantiated with the generated code) against what the real framers did, and
   the PROPERTY oracles of C03/C06/C07/C11 (spec side, FrSpecA).  Each chk_* returns
   (model agrees with implementation, property holds of what the implementation did). *)
From PM.theories Require Import Base Expr Struct FrBaseA Lrc FrTcp FrAscii FrTls FrSpecA.
From PM.Generated Require Import GenFramerA.
Open Scope list_scope.
Open Scope Z_scope.

Definition bytes_eqb := list_eqb N.eqb.

(* recorded behaviour of the real decoder: pdu bytes -> outcome; a PDU the implementation
   never decoded is answered with ModbusExc (which no decoder lets escape) *)
Definition dtable := list (bytes * dres).
Fixpoint dec_of (t : dtable) (pdu : bytes) : dres :=
  match t with
  | [] => DRaise ModbusExc
  | (k, r) :: t' => if bytes_eqb k pdu then r else dec_of t' pdu
  end.

(* what is observed after every processIncomingPacket call *)
Record obs := { o_ds : list delivery; o_exc : option pyexn; o_buf : bytes; o_hdr : list Z }.

Inductive mstate := MT (s : tstate) | MA (s : astate) | MS (b : bytes).

Definition m_init (k : kind) : mstate :=
  match k with KTcp => MT (t_init tcp) | KAscii => MA (a_init ascii) | KTls => MS [] end.

Definition m_recv (dec : bytes -> dres) (c : cfg) (st : mstate) (chunk : bytes) : mstate * list delivery * outc :=
  match st with
  | MT s => let '(s', ds, o) := t_recv base tcp dec c s chunk in (MT s', ds, o)
  | MA s => let '(s', ds, o) := a_recv base lrc ascii dec c s chunk in (MA s', ds, o)
  | MS b => let '(b', ds, o) := s_recv base tls dec c b chunk in (MS b', ds, o)
  end.

Definition m_view (st : mstate) : bytes * list Z :=
  match st with
  | MT s => (t_buf s, [h_tid (t_hdr s); h_pid (t_hdr s); h_len (t_hdr s); h_uid (t_hdr s)])
  | MA s => (a_buf s, [match a_lrc (a_hdr s) with Some v => v | None => -1 end; a_len (a_hdr s); a_uid (a_hdr s)])
  | MS b => (b, [])
  end.

Definition obs_matches (st : mstate) (ds : list delivery) (o : outc) (x : obs) : bool :=
  let '(buf, hdr) := m_view st in
  list_eqb delivery_eqb ds (o_ds x) &&
  (match o, o_exc x with Done, None => true | Exc e, Some f => pyexn_eqb e f | _, _ => false end) &&
  bytes_eqb buf (o_buf x) && list_eqb Z.eqb hdr (o_hdr x).

Fixpoint m_feed_ok (dec : bytes -> dres) (c : cfg) (st : mstate) (chunks : list bytes) (xs : list obs) : bool :=
  match chunks, xs with
  | [], [] => true
  | ch :: chunks', x :: xs' =>
      let '(st', ds, o) := m_recv dec c st ch in
      obs_matches st' ds o x && m_feed_ok dec c st' chunks' xs'
  | _, _ => false
  end.

Definition all_ds (xs : list obs) : list delivery := flat_map o_ds xs.
Definition no_exc (xs : list obs) : bool := forallb (fun x => match o_exc x with None => true | _ => false end) xs.

(* ---- C03: buildPacket ------------------------------------------------------------------ *)
(* (kind, tid, pid, uid, fc, data = message.encode(), what buildPacket returned) *)
Definition build_case := (kind * Z * Z * Z * Z * bytes * res bytes)%type.

Definition m_build (k : kind) (tid pid uid fc : Z) (data : bytes) : res bytes :=
  match k with
  | KTcp => t_build tcp tid pid uid fc data
  | KAscii => a_build lrc ascii uid fc data
  | KTls => s_build tls fc data
  end.

Definition chk_build (c : build_case) : bool * bool :=
  let '(k, tid, pid, uid, fc, data, impl) := c in
  let inrange := in16 tid && in16 pid && in8 uid && in8 fc &&
                 (match k with KTcp => Z.of_nat (length data) + 2 <? 65536 | _ => true end) in
  (res_eqb bytes_eqb (m_build k tid pid uid fc data) impl,
   if inrange then res_eqb bytes_eqb impl (Ok (spec_adu k {| f_tid := tid; f_pid := pid; f_uid := uid; f_pdu := Z.to_N fc :: data |}))
   else true).

(* (bytes, computeLRC(bytes), a check value, checkLRC(bytes, value)) *)
Definition chk_lrc (c : bytes * Z * Z * bool) : bool * bool :=
  let '(bs, v, ck, r) := c in
  ((py_lrc lrc bs =? v) && Bool.eqb (py_check_lrc lrc bs ck) r,
   (spec_lrc bs =? v) && Bool.eqb (spec_lrc bs =? ck) r).

(* ---- C03 whole frame / C06 chunked feeds --------------------------------------------------- *)
(* (kind, cfg, decoder table, frames of the stream, chunks fed, observations per call).
   Property: the chunks are a division of the spec ADUs of the frames; the receiver delivered
   exactly the accepted frames, in order, and no exception escaped. *)
Definition feed_case := (kind * cfg * dtable * list frame * list bytes * list obs)%type.

Definition frames_valid (k : kind) (t : dtable) (frames : list frame) : bool :=
  forallb (fun f => is_msg (dec_of t (f_pdu f))) frames.

Definition chk_c06 (c : feed_case) : bool * bool :=
  let '(k, cf, t, frames, chunks, xs) := c in
  (m_feed_ok (dec_of t) cf (m_init k) chunks xs,
   if bytes_eqb (concat chunks) (flat_map (spec_adu k) frames) && frames_valid k t frames
   then no_exc xs && list_eqb delivery_eqb (all_ds xs) (ref_deliveries k cf frames)
   else true).

(* exception responses are valid messages of the response direction BY SPECIFICATION (function code
   of the refused request + 0x80, one exception code byte) whether or not the library implements
   the refused function: for streams made of them the property does not depend on what the
   decoder says — they must be delivered *)
Definition exc_rsp_pdu (p : bytes) : bool :=
  match p with
  | [fc; code] => (129 <=? fc)%N && (fc <? 256)%N && (1 <=? code)%N && (code <? 256)%N
  | _ => false
  end.

Definition chk_c06x (c : feed_case) : bool * bool :=
  let '(k, cf, t, frames, chunks, xs) := c in
  (m_feed_ok (dec_of t) cf (m_init k) chunks xs,
   if bytes_eqb (concat chunks) (flat_map (spec_adu k) frames) && forallb (fun f => exc_rsp_pdu (f_pdu f)) frames
   then no_exc xs && list_eqb delivery_eqb (all_ds xs) (ref_deliveries k cf frames)
   else true).

(* ---- C07: arbitrary (corrupted) input; every delivery must be justified by the bytes given so far
   (and, on TCP, carry a PDU of the length its function code defines; server = request direction) *)
Definition corrupt_case := (kind * bool * cfg * dtable * list bytes * list obs)%type.

Fixpoint justified_all (k : kind) (server : bool) (sofar : bytes) (chunks : list bytes) (xs : list obs) : bool :=
  match chunks, xs with
  | ch :: chunks', x :: xs' =>
      let sofar' := sofar ++ ch in
      forallb (justified_dir k server sofar') (o_ds x) && justified_all k server sofar' chunks' xs'
  | _, _ => true
  end.

Definition chk_c07 (c : corrupt_case) : bool * bool :=
  let '(k, server, cf, t, chunks, xs) := c in
  (m_feed_ok (dec_of t) cf (m_init k) chunks xs, justified_all k server [] chunks xs).

(* ---- C11 (ASCII): garbage, then valid frames; after at most two maximum-size frames of valid
   traffic every frame is delivered, and the backlog stays bounded ------------------------ *)
(* (cfg, table, length of the garbage prefix, valid frames, reads, observations) *)
Definition resync_case := (cfg * dtable * Z * list frame * list bytes * list obs)%type.

Fixpoint backlog_ok (pos thr : Z) (chunks : list bytes) (xs : list obs) : bool :=
  match chunks, xs with
  | ch :: chunks', x :: xs' =>
      let pos' := pos + Z.of_nat (length ch) in
      (if thr <=? pos then Z.of_nat (length (o_buf x)) <=? ascii_lmax + Z.of_nat (length ch) else true)
      && backlog_ok pos' thr chunks' xs'
  | _, _ => true
  end.

Definition chk_c11 (c : resync_case) : bool * bool :=
  let '(cf, t, glen, frames, chunks, xs) := c in
  let k := KAscii in
  (m_feed_ok (dec_of t) cf (m_init k) chunks xs,
   if bytes_eqb (skipn (Z.to_nat glen) (concat chunks)) (flat_map (spec_adu k) frames)
      && frames_valid k t frames && forallb (fun f => spec_accepts k cf (f_uid f)) frames
   then is_subseq (map (spec_delivery k) (late_frames k (2 * ascii_lmax) frames)) (all_ds xs)
        && backlog_ok 0 (glen + 2 * ascii_lmax) chunks xs
   else true).

(* ---- compact literals for generated case files ---------------------------------------- *)
Definition hexc (a : Ascii.ascii) : N :=
  let n := Ascii.N_of_ascii a in if (n <? 58)%N then (n - 48)%N else (n - 55)%N.
Fixpoint hx (s : string) : bytes :=
  match s with
  | String a (String b t) => (16 * hexc a + hexc b)%N :: hx t
  | _ => []
  end.
Definition cf (units : list Z) (single : option bool) : cfg := {| c_units := units; c_single := single |}.
Definition dv (pdu : bytes) (tid pid uid : Z) : delivery := {| d_pdu := pdu; d_tid := tid; d_pid := pid; d_uid := uid |}.
Definition ob (ds : list delivery) (e : option pyexn) (buf : bytes) (hdr : list Z) : obs :=
  {| o_ds := ds; o_exc := e; o_buf := buf; o_hdr := hdr |}.
Definition fr (tid pid uid : Z) (pdu : bytes) : frame := {| f_tid := tid; f_pid := pid; f_uid := uid; f_pdu := pdu |}.

(* ---- C11 through the REAL serial-style handlers (sync ModbusSingleRequestHandler, asyncio
   datagram handler) with the ASCII framer: the handler catches what processIncomingPacket raises
   and calls resetFrame() — modelled by [a_recv_h].  Observed per read: requests delivered to
   execute(), the exception processIncomingPacket raised (caught by the handler), buffer/header
   after the handler's except/finally.  [answered]: the delivered requests for which a response was
   written to the port, in order.  Property: every valid request later than two maximum-size frames
   after the garbage is ANSWERED, and the backlog stays bounded. *)
Definition handler_case := (cfg * dtable * Z * list frame * list bytes * list obs * list delivery)%type.

Fixpoint h_feed_ok (dec : bytes -> dres) (c : cfg) (st : astate) (chunks : list bytes) (xs : list obs) : bool :=
  match chunks, xs with
  | [], [] => true
  | ch :: chunks', x :: xs' =>
      let '(st', ds, o) := a_recv_h base lrc ascii dec c st ch in
      obs_matches (MA st') ds o x && h_feed_ok dec c st' chunks' xs'
  | _, _ => false
  end.

Definition chk_c11h (c : handler_case) : bool * bool :=
  let '(cf, t, glen, frames, chunks, xs, answered) := c in
  let k := KAscii in
  (h_feed_ok (dec_of t) cf (a_init ascii) chunks xs,
   if bytes_eqb (skipn (Z.to_nat glen) (concat chunks)) (flat_map (spec_adu k) frames)
      && frames_valid k t frames && forallb (fun f => spec_accepts k cf (f_uid f)) frames
   then is_subseq (map (spec_delivery k) (late_frames k (2 * ascii_lmax) frames)) answered
        && Nat.eqb (length xs) (length chunks)
        && backlog_ok 0 (glen + 2 * ascii_lmax) chunks xs
   else true).
