(* C01 add-on — the bit packing of utilities.py over its GENERATED constants.
   C01_bitpack / C01_bitunpack are about the literal model of Pdu.v (tied by correspondence); here
   the two loops are matched statement by statement by gen/gen_bits.py and their constants
   (128, 8, 1, 8, 7 / 8 bits, mask 1, == 1, shift 1) regenerated on every run; the interpreter of
   that generated code is proved equal to the specification's LSB-first packing with zero padding. *)
From PM.theories Require Import Base Bits PduSpec Pdu.
From PM.Generated Require Import GenBits.
From PM.proofs Require Import Bits_proofs.
Open Scope N_scope.

Theorem C01_bits_code_is_spec : GenBits.code = spec_bits_code.
Proof. exact bits_code_is_spec. Qed.
Print Assumptions C01_bits_code_is_spec.

Theorem C01_bitpack_generated : forall bits, pack_g GenBits.code bits = spec_pack_bits bits.
Proof. exact pack_generated_is_spec. Qed.
Print Assumptions C01_bitpack_generated.

Theorem C01_bitunpack_generated : forall bs, unpack_g GenBits.code bs = spec_unpack_bits bs.
Proof. exact unpack_generated_is_spec. Qed.
Print Assumptions C01_bitunpack_generated.

Theorem C01_bits_generated_is_literal_model :
  (forall bits, pack_g GenBits.code bits = py_pack_bitstring bits) /\
  (forall s, unpack_g GenBits.code s = py_unpack_bitstring s).
Proof. rewrite bits_code_is_spec. split; [exact pack_g_literal | exact unpack_g_literal]. Qed.
Print Assumptions C01_bits_generated_is_literal_model.

Example C01_bits_nonvacuous :
  pack_g GenBits.code [true; false; true; true; false; false; false; false; true] = [13; 1] /\
  unpack_g GenBits.code [13] = [true; false; true; true; false; false; false; false].
Proof. split; vm_compute; reflexivity. Qed.
Print Assumptions C01_bits_nonvacuous.
