"""C17 add-on: configuration wiring (Props/C17_cfg.v) — see props/lib_wiring.py."""
from props import lib_wiring as W

GENERATORS = W.GENERATORS
PROP_FILES = ["C17_cfg"]
CASE_DEPS = W.CASE_DEPS
TRUSTED = W.TRUSTED
ASSUMPTIONS = W.ASSUMPTIONS
suites = W.suites
classify = W.classify
replay_case = W.replay_case

MANIFEST_ADD = {"text": 'Add-on Props/C17_cfg.v (C17_cfg_same_configuration): any two front-ends started through their documented factories with the same arguments serve with the same configuration, role by role; tied by calling all ten real factories.',
                "note": ''}
