(* Wiring_proofs.v — configuration given at a documented entry point is what the serving code reads. *)
From Coq Require Import List Bool String.
From PM.theories Require Import Base Ladder Frontends CorrFrontends Wiring.
From PM.Generated Require Import GenFrontends GenWiring.
From PM.proofs Require Import FrontendsC12_proofs.
Import ListNotations.
Open Scope string_scope.
Open Scope list_scope.

(* ---- generic facts about the model of Python's call binding and `or` -------------------------- *)

Lemma ctor_sees_src : forall f p k, ctor_src f p = Some k ->
  forall V (env : string -> option V), ctor_sees f env p = env k.
Proof. intros f p k H V env. unfold ctor_sees. rewrite H. reflexivity. Qed.

Lemma ctor_sees_none : forall f p, ctor_src f p = None ->
  forall V (env : string -> option V), ctor_sees f env p = None.
Proof. intros f p H V env. unfold ctor_sees. rewrite H. reflexivity. Qed.

Lemma configured_t_given : forall s V (truthy : V -> bool) x d,
  user_configurable s = true -> truthy x = true -> configured_t s truthy (Some x) d = x.
Proof. intros s V truthy x d Hs Ht. destruct s; cbn in *; try discriminate; try rewrite Ht; reflexivity. Qed.

Lemma configured_t_default : forall s V (truthy : V -> bool) d, configured_t s truthy None d = d.
Proof. intros s V truthy d. destruct s; reflexivity. Qed.

(* `x or d` with a FALSE x silently serves the default: the reason the truth facts matter *)
Lemma configured_t_false_value : forall p dn V (truthy : V -> bool) x d,
  truthy x = false -> configured_t (WOrDefault p dn) truthy (Some x) d = d.
Proof. intros p dn V truthy x d H. cbn. rewrite H. reflexivity. Qed.

Lemma py_truthy_no_override : forall V (ut : V -> bool) x, py_truthy false ut x = true.
Proof. reflexivity. Qed.

(* [configured_t] agrees with Ladder.configured on true values *)
Lemma configured_t_is_configured : forall s V (truthy : V -> bool) g d,
  (forall x, g = Some x -> truthy x = true) -> configured_t s truthy g d = configured s g d.
Proof.
  intros s V truthy g d H. destruct s; cbn; try reflexivity.
  destruct g as [x|]; [|reflexivity]. rewrite (H x eq_refl). reflexivity.
Qed.

(* ---- the generated tables --------------------------------------------------------------------- *)

Definition role_overrides (T : list (string * (bool * bool))) (role : string) : bool :=
  match role_kind role with Some k => kind_overrides T k | None => false end.

(* one role of one factory: the constructor parameter the attribute is computed from receives the
   user's keyword of the role's name, and a value of that role cannot be false *)
Definition role_ok_b (f : factory) (roles : list (string * wsrc)) (role : string) : bool :=
  match assoc_s role roles with
  | Some s =>
      (if user_configurable s
       then match wparam s with
            | Some p => match ctor_src f p with Some k => String.eqb k (factory_key role) | None => false end
            | None => false
            end
       else true) && negb (role_overrides truth_facts role)
  | None => false
  end.

Definition factory_ok_b (f : factory) : bool :=
  fa_registers f &&
  match assoc_s (fa_target f) server_wiring with
  | Some roles =>
      forallb (fun sf : string * frontend =>
                 if String.eqb (fst sf) (fa_target f)
                 then forallb (role_ok_b f roles) (required_roles (snd sf)) else true) servers
      && existsb (fun sf : string * frontend => String.eqb (fst sf) (fa_target f)) servers
  | None => false
  end.

Lemma factories_ok : forallb factory_ok_b factories = true.
Proof. vm_compute. reflexivity. Qed.

Lemma truth_facts_ok : forallb (fun e : string * (bool * bool) => negb (fst (snd e)) && negb (snd (snd e))) truth_facts = true.
Proof. vm_compute. reflexivity. Qed.

Lemma decoder_facts_ok : forallb (fun e : string * (bool * bool) => fst (snd e) && snd (snd e)) decoder_facts = true.
Proof. vm_compute. reflexivity. Qed.

(* the documented entry points are all there: four per module, minus declared stubs *)
Definition entry_points : list string :=
  ["sync.StartTcpServer"; "sync.StartTlsServer"; "sync.StartUdpServer"; "sync.StartSerialServer";
   "async_io.StartTcpServer"; "async_io.StartTlsServer"; "async_io.StartUdpServer";
   "asynchronous.StartTcpServer"; "asynchronous.StartUdpServer"; "asynchronous.StartSerialServer"].

Lemma entry_points_covered :
  forallb (fun n => existsb (fun f => String.eqb (fa_name f) n) factories) entry_points = true.
Proof. vm_compute. reflexivity. Qed.

(* table-level statement, unfolded into logic *)
Lemma factory_role_spec : forall f fe role,
  In f factories -> In (fa_target f, fe) servers -> In role (required_roles fe) ->
  fa_registers f = true /\
  exists roles s, assoc_s (fa_target f) server_wiring = Some roles /\ assoc_s role roles = Some s /\
    role_overrides truth_facts role = false /\
    (user_configurable s = true -> exists p, wparam s = Some p /\ ctor_src f p = Some (factory_key role)).
Proof.
  intros f fe role Hf Hs Hr.
  pose proof factories_ok as H. rewrite forallb_forall in H. specialize (H f Hf).
  unfold factory_ok_b in H. apply andb_prop in H. destruct H as [Hreg H]. split; [exact Hreg|].
  destruct (assoc_s (fa_target f) server_wiring) as [roles|] eqn:Eroles; [|discriminate].
  apply andb_prop in H. destruct H as [H _]. rewrite forallb_forall in H.
  specialize (H (fa_target f, fe) Hs). cbn [fst snd] in H. rewrite String.eqb_refl in H.
  rewrite forallb_forall in H. specialize (H role Hr). unfold role_ok_b in H.
  destruct (assoc_s role roles) as [s|] eqn:Es; [|discriminate].
  exists roles, s. split; [reflexivity|]. split; [exact Es|].
  apply andb_prop in H. destruct H as [H1 H2]. split.
  - destruct (role_overrides truth_facts role); [discriminate|reflexivity].
  - intros Hu. rewrite Hu in H1. destruct (wparam s) as [p|] eqn:Ep; [|discriminate].
    exists p. split; [reflexivity|].
    destruct (ctor_src f p) as [k|] eqn:Ek; [|discriminate].
    apply String.eqb_eq in H1. rewrite H1. reflexivity.
Qed.

(* MAIN: from the user's call of a Start*Server factory to what the handlers read.  For every
   factory, every front-end its server class serves with, every role the handlers of that
   front-end read (context/store, framer, handler class, the two flags, the identity): if the
   user passed x under the role's name, then x — not a default — is what the constructor's
   `x or d` / `kwargs.get` hands to the handlers, WHATEVER user-level truth value x has (the
   classes that can travel there define neither __bool__ nor __len__ and no metaclass). *)
Theorem entry_point_to_handler : forall f fe role,
  In f factories -> In (fa_target f, fe) servers -> In role (required_roles fe) ->
  exists roles s, assoc_s (fa_target f) server_wiring = Some roles /\ assoc_s role roles = Some s /\
    (user_configurable s = true ->
       exists p, wparam s = Some p /\
         forall V (env : string -> option V) (user_truth : V -> bool) (x d : V),
           env (factory_key role) = Some x ->
           configured_t s (py_truthy (role_overrides truth_facts role) user_truth) (ctor_sees f env p) d = x) /\
    (* … and with nothing passed the constructor's default applies *)
    (forall p, wparam s = Some p ->
         forall V (env : string -> option V) (user_truth : V -> bool) (d : V),
           env (factory_key role) = None -> user_configurable s = true ->
           configured_t s (py_truthy (role_overrides truth_facts role) user_truth) (ctor_sees f env p) d = d).
Proof.
  intros f fe role Hf Hs Hr.
  destruct (factory_role_spec f fe role Hf Hs Hr) as [_ [roles [s [H1 [H2 [H3 H4]]]]]].
  exists roles, s. split; [exact H1|]. split; [exact H2|]. split.
  - intros Hu. destruct (H4 Hu) as [p [Hp Hsrc]]. exists p. split; [exact Hp|].
    intros V env ut x d Henv. rewrite (ctor_sees_src f p _ Hsrc V env), Henv, H3.
    apply configured_t_given; [exact Hu | reflexivity].
  - intros p Hp V env ut d Henv Hu. destruct (H4 Hu) as [p' [Hp' Hsrc]].
    rewrite Hp in Hp'. inversion Hp'; subst p'.
    rewrite (ctor_sees_src f p _ Hsrc V env), Henv. apply configured_t_default.
Qed.

(* the constructors alone (the user builds the server object directly), with `or` taken literally *)
Theorem constructor_to_handler : forall srv fe role,
  In (srv, fe) servers -> In role (required_roles fe) ->
  exists roles s, assoc_s srv server_wiring = Some roles /\ assoc_s role roles = Some s /\
    (user_configurable s = true ->
       forall V (user_truth : V -> bool) (x d : V),
         configured_t s (py_truthy (role_overrides truth_facts role) user_truth) (Some x) d = x).
Proof.
  intros srv fe role Hs Hr.
  destruct (server_wiring_spec srv fe Hs) as [roles [H1 H2]].
  destruct (H2 role Hr) as [s [H3 _]].
  exists roles, s. split; [exact H1|]. split; [exact H3|].
  intros Hu V ut x d.
  assert (Hov : role_overrides truth_facts role = false).
  { clear - Hr. destruct fe; cbn in Hr;
      repeat (destruct Hr as [Hr|Hr]; [subst role; vm_compute; reflexivity|]); contradiction. }
  rewrite Hov. apply configured_t_given; [exact Hu | reflexivity].
Qed.

(* what goes wrong without the truth facts: were a served context's class to define __len__, an
   EMPTY multi-unit context (legal: units are attached later) would be replaced by the default *)
Lemma falsy_context_would_be_replaced :
  forall V (x d : V), configured_t (WOrDefault "context" "ModbusServerContext()") (py_truthy true (fun _ => false)) (Some x) d = d.
Proof. reflexivity. Qed.

(* every custom function handed to a factory is registered on the decoder of the server it built,
   and decoders keep their tables per instance *)
Theorem custom_functions_stay_local :
  (forall f, In f factories -> fa_registers f = true) /\
  (forall c a b, In (c, (a, b)) decoder_facts -> a = true /\ b = true).
Proof.
  split.
  - intros f Hf. pose proof factories_ok as H. rewrite forallb_forall in H. specialize (H f Hf).
    unfold factory_ok_b in H. apply andb_prop in H. tauto.
  - intros c a b Hin. pose proof decoder_facts_ok as H. rewrite forallb_forall in H.
    specialize (H _ Hin). cbn in H. apply andb_prop in H. tauto.
Qed.

(* ---- every role a front-end reads is user-configurable (from FrontendsC12_proofs.wiring_ok) ---- *)

Lemma required_role_configurable : forall srv fe role roles s,
  In (srv, fe) servers -> In role (required_roles fe) ->
  assoc_s srv server_wiring = Some roles -> assoc_s role roles = Some s -> user_configurable s = true.
Proof.
  intros srv fe role roles s Hs Hr H1 H2.
  pose proof wiring_ok as H. unfold wiring_ok_b in H. rewrite forallb_forall in H.
  specialize (H (srv, fe) Hs). cbn [fst snd] in H. rewrite H1 in H.
  rewrite forallb_forall in H. specialize (H role Hr). rewrite H2 in H. exact H.
Qed.

(* the statement the property files use: no side condition left *)
Theorem entry_point_serves_user_value : forall f fe role,
  In f factories -> In (fa_target f, fe) servers -> In role (required_roles fe) ->
  exists roles s p, assoc_s (fa_target f) server_wiring = Some roles /\ assoc_s role roles = Some s /\
    wparam s = Some p /\
    forall V (env : string -> option V) (user_truth : V -> bool) (d : V),
      (forall x, env role = Some x ->
         configured_t s (py_truthy (role_overrides truth_facts role) user_truth) (ctor_sees f env p) d = x) /\
      (env role = None ->
         configured_t s (py_truthy (role_overrides truth_facts role) user_truth) (ctor_sees f env p) d = d).
Proof.
  intros f fe role Hf Hs Hr.
  destruct (entry_point_to_handler f fe role Hf Hs Hr) as [roles [s [H1 [H2 [H3 H4]]]]].
  pose proof (required_role_configurable _ _ _ _ _ Hs Hr H1 H2) as Hu.
  destruct (H3 Hu) as [p [Hp Hx]].
  exists roles, s, p. split; [exact H1|]. split; [exact H2|]. split; [exact Hp|].
  intros V env ut d. split.
  - intros x Hx'. apply Hx. exact Hx'.
  - intros Hn. apply (H4 p Hp V env ut d Hn Hu).
Qed.

Theorem constructor_serves_user_value : forall srv fe role,
  In (srv, fe) servers -> In role (required_roles fe) ->
  exists roles s, assoc_s srv server_wiring = Some roles /\ assoc_s role roles = Some s /\
    forall V (user_truth : V -> bool) (x d : V),
      configured_t s (py_truthy (role_overrides truth_facts role) user_truth) (Some x) d = x /\
      configured_t s (py_truthy (role_overrides truth_facts role) user_truth) None d = d.
Proof.
  intros srv fe role Hs Hr.
  destruct (constructor_to_handler srv fe role Hs Hr) as [roles [s [H1 [H2 H3]]]].
  pose proof (required_role_configurable _ _ _ _ _ Hs Hr H1 H2) as Hu.
  exists roles, s. split; [exact H1|]. split; [exact H2|].
  intros V ut x d. split; [apply (H3 Hu) | apply configured_t_default].
Qed.

(* "context" / the two flags are read by every front-end; "handler" by the socket front-ends *)
Lemma context_required : forall fe, In "context" (required_roles fe).
Proof. destruct fe; cbn; tauto. Qed.
Lemma ignore_required : forall fe, In "ignore_missing_slaves" (required_roles fe).
Proof. destruct fe; cbn; tauto. Qed.
Lemma framer_required : forall fe, In "framer" (required_roles fe).
Proof. destruct fe; cbn; tauto. Qed.
Lemma identity_required : forall fe, In "identity" (required_roles fe).
Proof. destruct fe; cbn; tauto. Qed.
Lemma broadcast_required : forall fe, fe <> TwTcp -> fe <> TwUdp -> In "broadcast_enable" (required_roles fe).
Proof. destruct fe; cbn; intros; try tauto; congruence. Qed.

(* C10: the hosted set the user built — even an empty multi-unit context — is the one served *)
Theorem context_served : forall f fe,
  In f factories -> In (fa_target f, fe) servers ->
  exists roles s p, assoc_s (fa_target f) server_wiring = Some roles /\ assoc_s "context" roles = Some s /\
    wparam s = Some p /\
    forall V (env : string -> option V) (user_truth : V -> bool) (x d : V),
      env "context" = Some x ->
      configured_t s (py_truthy (role_overrides truth_facts "context") user_truth) (ctor_sees f env p) d = x.
Proof.
  intros f fe Hf Hs.
  destruct (entry_point_serves_user_value f fe "context" Hf Hs (context_required fe)) as [roles [s [p [H1 [H2 [H3 H4]]]]]].
  exists roles, s, p. repeat (split; [assumption|]).
  intros V env ut x d He. destruct (H4 V env ut d) as [Ha _]. apply Ha. exact He.
Qed.

(* C09: the two flags that decide silence reach the handlers from every entry point *)
Theorem flags_served : forall f fe flag,
  In f factories -> In (fa_target f, fe) servers ->
  (flag = "ignore_missing_slaves" \/ (flag = "broadcast_enable" /\ fe <> TwTcp /\ fe <> TwUdp)) ->
  exists roles s p, assoc_s (fa_target f) server_wiring = Some roles /\ assoc_s flag roles = Some s /\
    wparam s = Some p /\
    forall V (env : string -> option V) (x d : V),
      (env flag = Some x -> configured s (ctor_sees f env p) d = x) /\
      (env flag = None -> configured s (ctor_sees f env p) d = d).
Proof.
  intros f fe flag Hf Hs Hflag.
  assert (Hr : In flag (required_roles fe)).
  { destruct Hflag as [->|[-> [Ha Hb]]]; [apply ignore_required | apply broadcast_required; assumption]. }
  destruct (entry_point_serves_user_value f fe flag Hf Hs Hr) as [roles [s [p [H1 [H2 [H3 H4]]]]]].
  exists roles, s, p. repeat (split; [assumption|]).
  intros V env x d.
  assert (Ht : forall g, (forall y, g = Some y -> py_truthy (role_overrides truth_facts flag) (fun _ : V => true) y = true)).
  { intros g y _. unfold py_truthy. destruct (role_overrides truth_facts flag); reflexivity. }
  destruct (H4 V env (fun _ => true) d) as [Ha Hb]. split.
  - intros He. rewrite <- (configured_t_is_configured s V _ _ d (Ht (ctor_sees f env p))). apply Ha. exact He.
  - intros He. rewrite <- (configured_t_is_configured s V _ _ d (Ht (ctor_sees f env p))). apply Hb. exact He.
Qed.

(* C17: two front-ends started through their factories with the same arguments serve with the same
   configuration, role by role (for the roles both read) *)
Theorem same_configuration : forall f1 fe1 f2 fe2 role,
  In f1 factories -> In (fa_target f1, fe1) servers -> In f2 factories -> In (fa_target f2, fe2) servers ->
  In role (required_roles fe1) -> In role (required_roles fe2) ->
  exists s1 p1 s2 p2,
    (exists r1, assoc_s (fa_target f1) server_wiring = Some r1 /\ assoc_s role r1 = Some s1) /\ wparam s1 = Some p1 /\
    (exists r2, assoc_s (fa_target f2) server_wiring = Some r2 /\ assoc_s role r2 = Some s2) /\ wparam s2 = Some p2 /\
    forall V (env : string -> option V) (user_truth : V -> bool) (x d1 d2 : V), env role = Some x ->
      configured_t s1 (py_truthy (role_overrides truth_facts role) user_truth) (ctor_sees f1 env p1) d1 =
      configured_t s2 (py_truthy (role_overrides truth_facts role) user_truth) (ctor_sees f2 env p2) d2.
Proof.
  intros f1 fe1 f2 fe2 role Hf1 Hs1 Hf2 Hs2 Hr1 Hr2.
  destruct (entry_point_serves_user_value f1 fe1 role Hf1 Hs1 Hr1) as [r1 [s1 [p1 [A1 [A2 [A3 A4]]]]]].
  destruct (entry_point_serves_user_value f2 fe2 role Hf2 Hs2 Hr2) as [r2 [s2 [p2 [B1 [B2 [B3 B4]]]]]].
  exists s1, p1, s2, p2. split; [exists r1; tauto|]. split; [exact A3|]. split; [exists r2; tauto|]. split; [exact B3|].
  intros V env ut x d1 d2 He.
  destruct (A4 V env ut d1) as [Ha _]. destruct (B4 V env ut d2) as [Hb _].
  rewrite (Ha x He), (Hb x He). reflexivity.
Qed.

(* C16 (Twisted client): `self.framer = framer or ModbusSocketFramer(ClientDecoder())` keeps a framer
   INSTANCE the user supplies — whatever is in its buffer — because no framer class defines
   __bool__ or __len__ *)
Theorem supplied_framer_instance_kept : forall F, In F framer_classes ->
  kind_overrides truth_facts (VInstance F) = false /\
  forall V (user_truth : V -> bool) (x d : V),
    configured_t (WOrDefault "framer" "ModbusSocketFramer(ClientDecoder())")
                 (py_truthy (kind_overrides truth_facts (VInstance F)) user_truth) (Some x) d = x.
Proof.
  intros F HF.
  assert (H : kind_overrides truth_facts (VInstance F) = false).
  { cbn in HF. repeat (destruct HF as [HF|HF]; [subst F; vm_compute; reflexivity|]). contradiction. }
  split; [exact H|]. intros V ut x d. rewrite H. reflexivity.
Qed.

(* non-vacuity: the tables are inhabited and a concrete call goes through *)
Example wiring_nonvacuous :
  length factories = 10%nat /\ (9 <= length servers)%nat /\
  (exists f, In f factories /\ fa_name f = "sync.StartTcpServer" /\
     ctor_sees f (fun k => if String.eqb k "broadcast_enable" then Some 1%nat else None) "broadcast_enable" = Some 1%nat /\
     ctor_sees f (fun k => if String.eqb k "context" then Some 7%nat else None) "context" = Some 7%nat /\
     ctor_sees f (fun k => if String.eqb k "framer" then Some 9%nat else None) "framer" = Some 9%nat).
Proof.
  split; [vm_compute; reflexivity|]. split; [vm_compute; repeat constructor|].
  eexists. split; [left; reflexivity|]. vm_compute. repeat split.
Qed.
