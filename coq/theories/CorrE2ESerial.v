(* CorrE2ESerial.v — spec side and harness side of the SERIAL end-to-end composition
   (Props/C09_e2e_ascii.v, Props/C09_e2e_rtu.v).  Spec side: the request stream of a serial line is
   the concatenation of the ASCII (':' hex(unit, PDU, LRC) CR LF) resp. RTU (unit, PDU, CRC-16 low byte
   first) ADUs of the requests; the abstract server is CorrE2E.spec_run_g / spec_check_g with the
   framing's response ADU (serial framings carry no transaction / protocol id; [q_tid], [q_pid] of a
   request are not on the wire).  Harness side: case type and [chk_e2e_serial].  No proofs. *)
From PM.theories Require Import Base Expr Struct FrBaseA FrSpecA Lrc FrAscii PduCls PduSpec Pdu Store Exec ExecSpec CorrExec Server
                                EndToEnd EndToEndSerial CorrE2E.
From PM.Generated Require Import GenFramerA.
From PM.Generated Require GenServer.
From PM.theories Require Crc FrSpecB.
Open Scope string_scope.
Open Scope list_scope.
Open Scope Z_scope.

(* the frame of a request, in the vocabulary of FrSpecA *)
Definition req_frame (q : e2e_req) : frame :=
  {| f_tid := q_tid q; f_pid := q_pid q; f_uid := q_uid q; f_pdu := sreq_pdu (q_body q) |}.

Definition req_adu_ascii (q : e2e_req) : bytes := spec_adu_ascii (q_uid q) (sreq_pdu (q_body q)).

(* RTU: unit, PDU, CRC-16 (low byte first) *)
Definition rtu_adu : adu_fn := fun q pdu => FrSpecB.spec_adu_rtu (Z.to_N (q_uid q)) pdu.
Definition req_adu_rtu (q : e2e_req) : bytes := FrSpecB.spec_adu_rtu (Z.to_N (q_uid q)) (sreq_pdu (q_body q)).

(* ---------------------------------------------------------------- cases *)
Inductive serial_kind := SAscii | SRtu.

Record serial_case := {
  s_kind : serial_kind;
  s_fe : string;                       (* front-end, key into GenServer.frontends (sync_serial) *)
  s_cfg : scfg;
  s_units : list (Z * ldesc);
  s_reqs : list e2e_req;               (* every frame of the stream, frames for units not served included *)
  s_chunks : list bytes;
  s_written : bytes;
  s_final : list (Z * list dump1)
}.

Definition serial_req_adu (k : serial_kind) : e2e_req -> bytes :=
  match k with SAscii => req_adu_ascii | SRtu => req_adu_rtu end.
Definition serial_adu (k : serial_kind) : adu_fn :=
  match k with SAscii => ascii_adu | SRtu => rtu_adu end.

Definition chk_e2e_serial (c : serial_case) : bool * bool :=
  match sassoc (s_fe c) GenServer.frontends with
  | None => (false, false)
  | Some sk =>
      let sent := concat (s_chunks c) in
      let wf := CorrE2E.bytes_eqb sent (concat (map (serial_req_adu (s_kind c)) (s_reqs c))) in
      let units := map (fun p => (fst p, ctx_of_layout (snd p))) (s_units c) in
      let '(out, fin, clean) :=
        match s_kind c with
        | SAscii => let r := ascii_server_run sk (s_cfg c) units (s_chunks c) in
                    (e_out r, e_units r, match e_fault r, e_stop r with None, None => true | _, _ => false end)
        | SRtu => let r := rtu_server_run sk (s_cfg c) units (s_chunks c) in
                  (e_out r, e_units r, match e_fault r, e_stop r with None, None => true | _, _ => false end)
        end in
      (wf && clean && CorrE2E.bytes_eqb out (s_written c) && stores_match fin (s_final c),
       match spec_check_g (serial_adu (s_kind c)) (has_bcast_of sk) (s_cfg c)
                          (map (fun p => (fst p, abs_of_layout (snd p))) (s_units c))
                          (s_reqs c) (s_written c) with
       | Some su => states_ok (s_units c) su (s_final c)
       | None => false
       end)
  end.
