"""Case generation shared by C08 and C13 (the same runs of the real clients are judged by two oracles)."""
import itertools

from lib import common
from lib.main import Case, Suite
from . import lib_client as L

IMPORTS = ("From PM.theories Require Import Base Expr Client CorrClient.\n"
           "From PM.Generated Require Import GenClient.")
CASE_DEPS = ["theories/CorrClient.vo", "Generated/GenClient.vo"]

REQS = [n for n, _ in L.request_table()]
UNITS = [1, 5, 17, 247]
TIDS = [0, 1, 76, 255, 256, 4660, 65533, 65534, 65535]
FLAGS = [(False, False), (True, False), (False, True), (True, True)]


def params(r, beh):
    if beh == "partial":
        return {"k": r.randrange(0, 64)}
    if beh == "garbage":
        n = r.choice([1, 2, 3, 4, 5, 7, 8, 9, 12, 20, 40])
        alphabet = r.choice([list(range(256)), list(b":0123456789ABCDEFabcdef\r\n {}+-"), [0x7b, 0x7d, 0, 1, 3, 0x83, 0xff]])
        return {"bytes": [r.choice(alphabet) for _ in range(n)]}
    if beh == "stale":
        return {"fc": r.random() < 0.5}
    if beh == "oserror":
        return {"on_send": r.random() < 0.3}
    return {}


def summarize(o):
    return {"result": list(o["result"]), "is_error": o["is_error"], "timeout": o["timeout"], "elapsed": o["elapsed"],
            "max_wait": o["max_wait"], "sleeps": o["sleeps"], "writes": len(o["written"]),
            "sends": sum(1 for t in o["trace"] if t[0] == "send" and t[2] != "notconn"), "want_tid": o["want_tid"], "unit": o["unit"], "fc": o["fc"],
            "expected": o["expected"], "surplus_before": o["surplus_before"], "refused": o["refused"],
            "entry_connected": o["entry"].get("connected"),
            "delivered": [list(m) for m in o["delivered"]], "full_frame": o["full_frame"],
            "written": [w.hex() for w in o["written"]],
            "rx": [t[3].hex() for t in o["trace"] if t[0] == "recv"]}


def make_case(spec, label):
    term, obs = L.run_case(spec)
    desc = {"spec": spec, "impl": [summarize(o) for o in obs]}
    nontriv = any(o["result"][0] == "reply" for o in obs)
    return Case(term, desc, kind=label, nontrivial=nontriv)


def script_specs(tier):
    """every script of the ten behaviours of length retries+1 for retries 0 and 1 (x kinds x flags); retries 2 and 3
    sampled in the quick tier, all length-3 scripts and a large sample of length-4 scripts in the thorough tier"""
    r = common.rng("client.scripts")
    specs = []
    rot = itertools.count()

    def add(kind, retries, flags, behs):
        i = next(rot)
        reqs = [q for q in REQS if q != "write_coil"] if L.FRAMING[kind] == "FBin" else REQS
        req = reqs[i % len(reqs)]
        req2 = reqs[(i * 7 + 3) % len(reqs)]
        unit = UNITS[(i // 3) % len(UNITS)]
        specs.append(dict(kind=kind, retries=retries, roe=flags[0], roi=flags[1], tid0=TIDS[(i // 5) % len(TIDS)],
                          txs=[dict(req=req, unit=unit, script=[(b, params(r, b)) for b in behs]),
                               dict(req=req2, unit=unit if i % 4 else UNITS[(i + 1) % len(UNITS)], script=[])]))
    for kind in L.KINDS:
        for flags in FLAGS:
            for b in L.BEHAVIOURS:
                add(kind, 0, flags, [b])
            for bs in itertools.product(L.BEHAVIOURS, repeat=2):
                add(kind, 1, flags, list(bs))
    n2, n3 = (900, 500) if tier == "quick" else (0, 12000)
    if tier != "quick":
        for kind in L.KINDS:
            for bs in itertools.product(L.BEHAVIOURS, repeat=3):
                add(kind, 2, FLAGS[next(rot) % 4], list(bs))
    for _ in range(n2):
        add(r.choice(L.KINDS), 2, r.choice(FLAGS), [r.choice(L.BEHAVIOURS) for _ in range(3)])
    for _ in range(n3):
        retries = r.choice([3, 3, 3, None])
        add(r.choice(L.KINDS), retries, r.choice(FLAGS), [r.choice(L.BEHAVIOURS) for _ in range(4)])
    return specs


def special_specs(tier):
    r = common.rng("client.special")
    specs = []
    for kind in L.KINDS:
        # every request type: normal and exception reply from a conformant server, with history (tid incl. wrap)
        safe = [q for q in REQS if q != "write_coil"] if L.FRAMING[kind] == "FBin" else REQS
        for i, req in enumerate(REQS):
            if req == "write_coil" and L.FRAMING[kind] == "FBin":
                continue            # its reply carries 0x7D in the CRC: binary framer finding (C03/C06 #10), shown once in C08
            specs.append(dict(kind=kind, retries=r.choice([0, 1, 3, None]), roe=bool(i & 1), roi=bool(i & 2), tid0=TIDS[i % len(TIDS)],
                              txs=[dict(req=req, unit=UNITS[i % 4], script=[("full", {})]),
                                   dict(req=req, unit=UNITS[i % 4], script=[("exc", {})]),
                                   dict(req=safe[(i + 5) % len(safe)], unit=UNITS[(i + 1) % 4], script=[])]))
        # long histories on one client, tid wrap inside
        specs.append(dict(kind=kind, retries=1, roe=True, roi=False, tid0=65533,
                          txs=[dict(req=[q for q in REQS if q != "write_coil"][j % (len(REQS) - 1)], unit=5,
                                    script=[(r.choice(["full", "exc", "nothing", "full"]), {})]) for j in range(6)]))
        # a device marked as not responding is read with full=True next time
        specs.append(dict(kind=kind, retries=0, roe=False, roi=False, tid0=9,
                          txs=[dict(req="read_holding", unit=5, script=[("nothing", {})]),
                               dict(req="read_holding", unit=5, script=[("exc", {})]),
                               dict(req="read_coils", unit=5, script=[("partial", {"k": 2})]),
                               dict(req="read_coils", unit=5, script=[])]))
        # broadcast short-cut
        specs.append(dict(kind=kind, retries=2, roe=True, roi=True, tid0=3, bcast=True,
                          txs=[dict(req="write_register", unit=0, script=[("nothing", {})]),
                               dict(req="write_register", unit=0, script=[("oserror", {"on_send": True})]),
                               dict(req="write_register", unit=0, script=[("nothing", {})]),
                               # only unit 0 is the broadcast address: 0xFF (the non-significant unit id of Modbus/TCP)
                               # and every other unit are answered and must be read, broadcast_enable or not
                               dict(req="read_holding", unit=255, script=[("full", {})]),
                               dict(req="write_register", unit=1, script=[("full", {})]),
                               dict(req="read_holding", unit=5, script=[])]))
        # the (re)connect is refused
        specs.append(dict(kind=kind, retries=1, roe=True, roi=True, tid0=3,
                          txs=[dict(req="read_holding", unit=5, script=[], refuse=1),
                               dict(req="read_holding", unit=5, script=[("oserror", {}), ("full", {})], refuse=1),
                               dict(req="read_holding", unit=5, script=[])]))
        # two frames in one read, the second good / rejected by the decoder
        for b in ("twoframes", "twobad"):
            specs.append(dict(kind=kind, retries=0, roe=False, roi=False, tid0=20,
                              txs=[dict(req="read_holding", unit=5, script=[(b, {})]),
                                   dict(req="read_holding", unit=5, script=[("nothing", {})]),
                                   dict(req="read_coils", unit=5, script=[])]))
        # requests to unit 0 / 255 (no broadcast): the framer's unit filter is a wildcard
        for unit in (0, 255):
            for flags in ((False, False), (True, True)):
                specs.append(dict(kind=kind, retries=1, roe=flags[0], roi=flags[1], tid0=40,
                                  txs=[dict(req="read_input", unit=unit, script=[("wrongunit", {}), ("full", {})]),
                                       dict(req="read_input", unit=unit, script=[])]))
    return specs


_cache = {}


def client_suites(tier, chk, extra=()):
    """[Suite]; the real runs are done once per process and shared by both oracles"""
    if tier not in _cache:
        _cache[tier] = ([make_case(s, "script-r%s" % s["retries"]) for s in script_specs(tier)],
                        [make_case(s, "special") for s in special_specs(tier)]
                        + [make_case(s, "peer-close") for s in peer_close_specs()]
                        + [make_case(s, "malformed-pdu") for s in malformed_pdu_specs()]
                        + [make_case(s, "sizes") for s in size_specs()]
                        + [make_case(s, "slow") for s in slow_specs()]
                        + [make_case(s, "timeout0") for s in timeout0_specs()])
    a, b = _cache[tier]
    b = b + [make_case(s, "special") for s in extra]
    return [Suite("scripts", IMPORTS, "%s code" % chk, a, shard=120),
            Suite("special", IMPORTS, "%s code" % chk, b, shard=60)]


# ----------------------------------------------------------------------------- hand-modelled pieces

def suite_int16(tier):
    r = common.rng("client.int16")
    inputs = [bytes([a]) for a in range(256)] + [b""]
    interesting = list(b"09afAF gG+-_x\t\n\r\x0b\x0c\x00\xff:/@`")
    inputs += [bytes([a, b]) for a in interesting for b in interesting]
    inputs += [bytes([r.randrange(256), r.randrange(256)]) for _ in range(600 if tier == "quick" else 6000)]
    inputs += [bytes([r.choice(interesting), r.randrange(256)]) for _ in range(300)]
    inputs += [bytes([r.randrange(256), r.choice(interesting)]) for _ in range(300)]
    cases = []
    for b in inputs:
        try:
            v = int(b, 16)
        except ValueError:
            v = None
        cases.append(Case("(%s, %s)" % (L.cbytes(b), L.copt(v)), {"bytes": b.hex(), "value": v}, kind="int16",
                          nontrivial=v is not None))
    return Suite("int16", IMPORTS, "chk_int16", cases, shard=400)


def run_tcp_recv(size, timeout_units, ticks):
    """the REAL ModbusTcpClient._recv(size) against scripted (bytes, wait) ticks; times in units of 1/64 s.
    Returns (bytes, [(bytes returned this iteration, clock advance this iteration)])"""
    import types
    from pymodbus.client import sync
    U = 1.0 / 64
    st = {"t": 0.0, "last": None, "iter": [], "cur": b""}
    pending = list(ticks)

    class Sock:
        def setblocking(self, f):
            pass

        def close(self):
            pass

        def recv(self, n):
            d = st["next"][:max(n, 0)]
            st["cur"] = d
            return d

    def select(r, w, x, timeout):
        if timeout < 0:
            raise ValueError("negative timeout")
        data, wait = pending.pop(0) if pending else (b"", 10 ** 6)
        if wait * U <= timeout:
            st["t"] += wait * U
            st["next"] = data
            return (r, [], [])
        st["t"] += timeout
        return ([], [], [])

    def now():
        st["t"] += U
        if st["last"] is not None:
            st["iter"].append((st["cur"], int(round((st["t"] - st["last"]) / U))))
        st["last"] = st["t"]
        st["cur"] = b""
        return st["t"]
    c = sync.ModbusTcpClient("127.0.0.1", timeout=timeout_units * U)
    c.socket = Sock()
    saved = (sync.time, sync.select)
    sync.time = types.SimpleNamespace(time=now, sleep=lambda d: None)
    sync.select = types.SimpleNamespace(select=select)
    try:
        out = c._recv(size)
    except Exception:  # noqa: BLE001 — the real loop never raises; a raise is reported as a disagreement
        out = None
    finally:
        sync.time, sync.select = saved
    return out, st["iter"]


def suite_tcp_recv(tier):
    r = common.rng("client.tcp_recv")
    cases = []
    for _ in range(300 if tier == "quick" else 3000):
        size = r.choice([None, 0, -2, 1, 2, 8, 8, 12, 30])
        timeout = r.choice([1, 4, 16, 64])
        ticks = []
        for _ in range(r.randrange(0, 8)):
            n = r.choice([0, 1, 2, 3, 8, 20])
            ticks.append((bytes(r.randrange(256) for _ in range(n)), r.choice([0, 0, 1, 3, 10, 70])))
        out, iters = run_tcp_recv(size, timeout, ticks)
        raised = out is None
        term = "(%s, %s, %s, %s)" % (L.copt(size), L.z(timeout),
                                     L.clist("{| k_bytes := %s; k_dt := %s |}" % (L.cbytes(b), L.z(dt)) for b, dt in iters),
                                     "[256%N]" if raised else L.cbytes(out))
        out = b"" if raised else out
        cases.append(Case(term, {"size": size, "timeout": timeout, "ticks": [(b.hex(), w) for b, w in ticks], "got": out.hex()},
                          kind="tcp_recv", nontrivial=bool(out)))
    return Suite("tcp_recv", IMPORTS, "chk_tcp_recv", cases, shard=300)


# ----------------------------------------------------------------------------- python mirror of the oracles (classification only)

def serial_framing(kind):
    return L.FRAMING[kind] != "FTcp"


def paired(kind, t, res):
    _, tid, uid, fc, _ = res
    ok = (uid == t["unit"]) if serial_framing(kind) else (tid == t["want_tid"])
    return ok and fc in (t["fc"], t["fc"] | 0x80)


def spec_answer(budget, roe, roi, behs):
    late = False
    for b in behs:
        if b in ("full", "slow"):
            return True
        if b == "exc":
            return None if late else False
        if b == "wrongthenown":
            return None if (roi or late) else False
        if b in ("nothing", "late") and roe and budget > 0:
            budget -= 1
            late = late or b == "late"
            continue
        if b == "wrongunit" and roi and budget > 0:
            budget -= 1
            continue
        return None
    return True


def expected_ok(kind, t, want):
    if want is None:
        return True
    res = t["result"]
    return res[0] == "reply" and res[4] == t["expected"]["full" if want else "exc"] and paired(kind, t, res)


def failing_txns(pid, desc):
    """indices of the transactions of a case on which the python mirror of the oracle fails"""
    spec = desc["spec"]
    kind = spec["kind"]
    retries = spec.get("retries")
    retries = 3 if retries is None else retries
    out = []
    for i, (tx, t) in enumerate(zip(spec["txs"], desc["impl"])):
        res = t["result"]
        behs = [b for b, _ in tx.get("script", [])]
        bcast = bool(spec.get("bcast")) and t["unit"] == 0
        want_err = {"reply": (res[3] >= 129) if res[0] == "reply" else None, "err": True}.get(res[0])
        if t.get("is_error") != want_err:
            out.append(i)
            continue
        if pid == "C08":
            ok = True
            if not (bcast or t["refused"]):
                if res[0] == "reply":
                    ok = paired(kind, t, res) and list(res[1:]) in t["delivered"]
                first = behs[0] if behs else "full"
                want = {"full": True, "slow": True, "exc": False}.get(first)
                if first == "wrongthenown" and not spec.get("roi"):
                    want = False
                ok = ok and expected_ok(kind, t, want)
        else:
            ok = t["sends"] <= 1 + retries
            ok = ok and t["max_wait"] <= t["timeout"] and \
                t["elapsed"] <= (t["sends"] + 2) * 4 * t["timeout"] + 10 * sum(t["sleeps"]) + 128
            ok = ok and (res[0] in ("reply", "err") or (res[0] == "bcast" and bcast)
                         or (res == ["raise", "ConnectionExc"] and t["refused"]))
            if not (bcast or t["refused"]):
                ok = ok and expected_ok(kind, t, spec_answer(retries, spec.get("roe"), spec.get("roi"), behs))
        if not ok:
            out.append(i)
    return out


# ----------------------------------------------------------------------------- regions of the known findings

HEX = set(b"0123456789abcdefABCDEF")
STREAM_TCP = ("tcp", "tcp_rtu", "tcp_ascii", "tcp_binary")


def reached(tx, t):
    behs = [b for b, _ in tx.get("script", [])]
    return behs[:max(t["sends"], 0)]


def region_of(pid, spec, i):
    """id of the known finding whose region contains transaction i of this case (given that it fails), else None"""
    def go(t, tx, prev):
        kind = spec["kind"]
        fr = L.FRAMING[kind]
        res = t["result"]
        rx = [bytes.fromhex(x) for x in t["rx"]]
        # unread bytes of an earlier call are waiting ON A CONNECTION THAT IS STILL OPEN at call start (after a call that
        # ended in a short / empty read or a socket error the client has closed the socket, and what was in flight is gone)
        if kind in STREAM_TCP and t["surplus_before"] > 0 and t.get("entry_connected", True):
            return "F-C13-tcp-unread-bytes-not-drained" if pid == "C13" else "F-C08-stale-bytes-answer-next-call"
        if pid == "C13":
            if fr == "FAscii" and res == ["raise", "ValueError"] and any(
                    any(c not in HEX for c in x[1:5]) or len(x) < 5 for x in rx if x):
                return "F-C13-ascii-nonhex-valueerror"
            if fr == "FBin" and res == ["raise", "StructError"]:
                return "F-C13-binary-adjacent-delimiters-structerror"
            if kind == "udp" and t["sends"] >= 2 and res[0] == "err":
                return "F-C13-udp-retry-reads-datagram-in-two-parts"
            if res == ["none"] and prev is not None and prev["result"] == ["err", None] and prev["delivered"]:
                return "F-C13-none-after-partial-delivery"
            if fr == "FBin" and res[0] == "err" and any(
                    b in (0x7b, 0x7d) for b in bytes.fromhex(t["full_frame"])[1:-1]):
                return "F-C13-binary-delimiter-bytes"
        else:
            if res[0] == "reply" and not paired(kind, t, res):
                if "stale" in reached(tx, t):
                    return "F-C08-tid-fc-pairing"
                if serial_framing(kind) and t["unit"] in (0, 255) and (
                        "wrongunit" in reached(tx, t) or "wrongthenown" in reached(tx, t)):
                    return "F-C08-unit-0-255-wildcard"
            if fr == "FBin" and any(b in (0x7b, 0x7d) for b in bytes.fromhex(t["full_frame"])[1:-1]):
                return "F-C08-binary-delimiter-bytes"
            if fr == "FBin" and "wrongthenown" in reached(tx, t) and res[0] == "err":
                return "F-C08-binary-foreign-unit-frame-resets-read"
        return None
    return go


def classify_case(pid, desc):
    if "spec" not in desc:
        return None
    spec = desc["spec"]
    bad = failing_txns(pid, desc)
    if not bad:
        return None           # the mirror does not reproduce the Coq oracle's verdict: report, never suppress
    ids = []
    for i in bad:
        fid = region_of(pid, spec, i)(desc["impl"][i], spec["txs"][i], desc["impl"][i - 1] if i else None)
        if fid is None:
            return None
        ids.append(fid)
    return ids[0]


def replay_spec(pid, spec):
    """re-run a case spec on the implementation; True if the (python mirror of the) oracle still fails"""
    c = make_case(spec, "replay")
    return bool(failing_txns(pid, c.desc))


def peer_close_specs():
    """the peer closes (or half-closes) after the request was written, at every read boundary of _recv: before any
    reply byte, after exactly the minimum read (8 bytes on TCP), inside the body, half-close then nothing — for every
    client kind, retry setting and flag combination, each followed by the healthy follow-up"""
    specs = []
    i = 0
    for kind in L.KINDS:
        for retries in (0, 1, 2, 3, None):
            for flags in FLAGS:
                for b in ("close", "close8", "closek", "halfclose"):
                    i += 1
                    reqs = [q for q in REQS if q != "write_coil"] if L.FRAMING[kind] == "FBin" else REQS
                    tail = [("full", {})] if i % 2 else [(b, {"k": i}), ("exc", {})]
                    specs.append(dict(kind=kind, retries=retries, roe=flags[0], roi=flags[1], tid0=TIDS[i % len(TIDS)],
                                      txs=[dict(req=reqs[i % len(reqs)], unit=UNITS[i % 4], script=[(b, {"k": i})] + tail),
                                           dict(req=reqs[(i * 3 + 1) % len(reqs)], unit=UNITS[i % 4], script=[])]))
    return specs


def malformed_pdu_specs():
    """well-framed replies (correct length / checksum for the framing) whose PDU the decoder cannot turn into a message:
    bare function code, cut after the byte count, unknown function code — every client kind x request type (rotating) x
    retry flags, each followed by the healthy follow-up; the call must end with an error object (or a valid later reply)"""
    specs = []
    i = 0
    for kind in L.KINDS:
        reqs = [q for q in REQS if q != "write_coil"] if L.FRAMING[kind] == "FBin" else REQS
        for b in ("barefc", "truncbc", "unknownfc"):
            for j, req in enumerate(reqs):
                i += 1
                flags = FLAGS[i % 4]
                retries = (0, 1, 3, None)[(i // 4) % 4]
                tail = [("full", {})] if i % 3 == 0 else []
                specs.append(dict(kind=kind, retries=retries, roe=flags[0], roi=flags[1], tid0=TIDS[i % len(TIDS)],
                                  txs=[dict(req=req, unit=UNITS[i % 4], script=[(b, {})] + tail),
                                       dict(req=reqs[(j + 7) % len(reqs)], unit=UNITS[i % 4], script=[])]))
    return specs


def size_specs():
    """conformant replies whose length depends on the request's counts: FC 23 with read count {1,4,125} x registers
    written {1,2,121}, reads / writes at the protocol limits, on EVERY client kind: the normal reply built by the real
    server side (request.execute on a data store + buildPacket), the exception reply, then the healthy follow-up"""
    specs = []
    names = [n for n, _ in L.size_request_table()]
    i = 0
    for kind in L.KINDS:
        for n in names:
            i += 1
            flags = FLAGS[i % 4]
            specs.append(dict(kind=kind, retries=(0, 1, None)[i % 3], roe=flags[0], roi=flags[1], tid0=TIDS[i % len(TIDS)],
                              txs=[dict(req=n, unit=UNITS[i % 4], script=[("full", {})]),
                                   dict(req=n, unit=UNITS[i % 4], script=[("exc", {})]),
                                   dict(req=names[(i * 5 + 2) % len(names)], unit=UNITS[i % 4], script=[])]))
    return specs


NOSIZE = ["mask_write", "exc_status", "evt_counter", "evt_log", "slave_id", "read_file", "write_file"]


def slow_specs():
    """the correct reply arriving in two bursts 50 ms apart (in_waiting grows between two polls of the serial client's
    _wait_for_data; the TCP deadline loop gets two recv results): every stream client kind x every request type —
    those without get_response_pdu_size are read with recv(None) on the serial framings — at several cut points"""
    specs = []
    i = 0
    for kind in L.KINDS:
        if kind == "udp":
            continue
        reqs = [q for q in REQS if q != "write_coil"] if L.FRAMING[kind] == "FBin" else REQS
        for req in reqs:
            for k in (2, 3, 5, 6, 9):
                i += 1
                if req not in NOSIZE and i % 3:
                    continue
                flags = FLAGS[i % 4]
                specs.append(dict(kind=kind, retries=(0, 1)[i % 2], roe=flags[0], roi=flags[1], tid0=TIDS[i % len(TIDS)],
                                  txs=[dict(req=req, unit=UNITS[i % 4], script=[("slow", {"k": k})]),
                                       dict(req=reqs[(i + 3) % len(reqs)], unit=UNITS[i % 4], script=[])]))
    return specs


def timeout0_specs():
    """serial clients opened with timeout=0 (non-blocking port): _wait_for_data polls without a deadline until the
    bytes stop growing; a complete reply that is already there must be returned"""
    specs = []
    i = 0
    for kind in ("rtu", "ascii", "binary"):
        reqs = [q for q in REQS if q != "write_coil"] if kind == "binary" else REQS
        for req in reqs:
            i += 1
            specs.append(dict(kind=kind, retries=0, roe=False, roi=False, tid0=TIDS[i % len(TIDS)], timeout=0,
                              txs=[dict(req=req, unit=UNITS[i % 4], script=[("full", {})]),
                                   dict(req=req, unit=UNITS[i % 4], script=[("exc", {})])]))
    return specs


def foreign_then_own_specs():
    """a complete frame of another unit followed by the own (exception) reply in the same burst: serial framings
    (incl. framer-over-tcp) and udp read both in one read; since repairs 10/11 the own reply must be returned
    (binary framer: unchanged, known finding).  Not generated for the plain tcp client, which reads one frame by its
    MBAP length."""
    specs = []
    for kind in L.KINDS:
        if kind == "tcp":
            continue
        for unit in (5, 17, 0):
            for roi in (False, True):
                for roe in (False, True):
                    specs.append(dict(kind=kind, retries=1, roe=roe, roi=roi, tid0=65535 if unit == 17 else 7,
                                      txs=[dict(req="read_holding_big", unit=unit, script=[("wrongthenown", {}), ("full", {})]),
                                           dict(req="read_coils", unit=unit, script=[])]))
    return specs
