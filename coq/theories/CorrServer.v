(* CorrServer.v — harness side of the correspondence check for the server execute/send
   model: the case type (what the framer delivered to a REAL handler, what every
   `request.execute` call returned or raised, what was sent, per-unit execution logs and
   which units' tables changed), the comparison against [Server.serve] run on the
   GENERATED skeleton of the same front-end, and the PROPERTY oracles for C09 and C10,
   which are written from the property text and never look at a skeleton. *)
From PM.theories Require Import Base Server.
Open Scope string_scope.
Open Scope list_scope.
Open Scope Z_scope.

(* harness instantiation of a unit's store: (unit id, tags of the requests executed on it) *)
Definition hstore : Type := Z * list Z.

Inductive eres := ROk (fc : Z) (respond : bool) (code : option Z) | RRaise (e : pyexn).

Record creq := {
  c_tag : Z; c_tid : Z; c_uid : Z; c_fc : Z; c_dest : Z;
  c_results : list (Z * eres)      (* per unit on which request.execute was called: what it did *)
}.

Fixpoint assoc {A} (l : list (Z * A)) (k : Z) : option A :=
  match l with
  | [] => None
  | (k', v) :: t => if k' =? k then Some v else assoc t k
  end.

Definition dreq_of (c : creq) : dreq hstore :=
  {| rq_tid := c_tid c; rq_uid := c_uid c; rq_fc := c_fc c; rq_dest := c_dest c;
     rq_exec := fun s =>
       ((fst s, snd s ++ [c_tag c]),
        match assoc (c_results c) (fst s) with
        | Some (ROk fc r code) => Ok {| rs_fc := fc; rs_respond := r; rs_code := code |}
        | Some (RRaise e) => Raise e
        | None => Ok {| rs_fc := -1; rs_respond := true; rs_code := None |}   (* never executed there: logs will differ *)
        end) |}.

(* an observed transmission: the tag of the request during whose execute() it happened *)
Record oout := { oo_for : Z; oo_out : out }.

Record scase := {
  k_fe : string;                   (* front-end name, key into GenServer.frontends *)
  k_cfg : scfg;
  k_hosted : list Z;               (* context.slaves() *)
  k_reqs : list creq;              (* delivered, in order *)
  k_outs : list oout;              (* sent, in order *)
  k_logs : list (Z * list Z);      (* per hosted unit: tags executed on it *)
  k_changed : list Z;              (* units whose table dump differs before/after *)
  k_escaped : bool                 (* an exception escaped the callback *)
}.

Definition optz_eqb := option_eqb Z.eqb.

Definition out_eqb (a b : out) : bool :=
  (o_tid a =? o_tid b) && (o_uid a =? o_uid b) && (o_fc a =? o_fc b) &&
  optz_eqb (o_code a) (o_code b) && (o_dest a =? o_dest b).

Definition log_eqb (a b : Z * list Z) : bool := (fst a =? fst b) && list_eqb Z.eqb (snd a) (snd b).

Fixpoint assoc_s {A} (l : list (string * A)) (k : string) : option A :=
  match l with
  | [] => None
  | (k', v) :: t => if String.eqb k' k then Some v else assoc_s t k
  end.

Section WithCode.
Variable C : server_code.
Variable FES : list (string * skel).

Definition model_agrees (k : scase) : bool :=
  match assoc_s FES (k_fe k) with
  | None => false
  | Some sk =>
      let l0 := map (fun u => (u, (u, @nil Z))) (k_hosted k) in
      let '(l1, outs, exn) := serve hstore C sk (k_cfg k) l0 (map dreq_of (k_reqs k)) in
      list_eqb out_eqb outs (map oo_out (k_outs k)) &&
      list_eqb log_eqb (map snd l1) (k_logs k) &&
      Bool.eqb (match exn with Some _ => true | None => false end) (k_escaped k)
  end.

(* ------------------------------------------------------------------ spec-side oracles *)

Definition is_bcast (cfg : scfg) (c : creq) : bool := cf_bcast cfg && (c_uid c =? 0).
Definition is_missing (cfg : scfg) (hosted : list Z) (c : creq) : bool :=
  negb (cf_single cfg) && negb (zmem (c_uid c) hosted).

(* result of request.execute on the addressed unit, when it was executed there *)
Definition addressed_result (cfg : scfg) (c : creq) : option eres :=
  assoc (c_results c) (if cf_single cfg then 0 else c_uid c).

Definition echoes (c : creq) (o : out) : bool :=
  (o_tid o =? c_tid c) && (o_uid o =? c_uid c) && (o_dest o =? c_dest c) &&
  ((o_fc o =? c_fc c) || (o_fc o =? Z.lor (c_fc c) 128)).

Definition gateway_exc (c : creq) (o : out) : bool :=
  (o_fc o =? Z.lor (c_fc c) 128) &&
  match o_code o with Some k => (k =? 10) || (k =? 11) | None => false end.

(* C09 for one delivered request, given the transmissions made on its behalf *)
Definition c09_req (cfg : scfg) (hosted : list Z) (c : creq) (os : list out) : bool :=
  if is_bcast cfg c then match os with [] => true | _ => false end
  else if is_missing cfg hosted c then
    (if cf_ignore cfg then match os with [] => true | _ => false end
     else match os with [o] => echoes c o && gateway_exc c o | _ => false end)
  else match addressed_result cfg c with
       | Some (ROk _ false _) => match os with [] => true | _ => false end       (* listen-only *)
       | Some (RRaise NoSuchSlaveExc) =>                                         (* datastore says "no such slave": either *)
           match os with [] => true | [o] => echoes c o | _ => false end
       | _ => match os with [o] => echoes c o | _ => false end
       end.

Fixpoint nondecreasing (l : list Z) : bool :=
  match l with
  | a :: ((b :: _) as t) => (a <=? b) && nondecreasing t
  | _ => true
  end.

Definition outs_for (k : scase) (c : creq) : list out :=
  map oo_out (filter (fun o => oo_for o =? c_tag c) (k_outs k)).

Definition prop_c09 (k : scase) : bool :=
  (* nothing spontaneous: every transmission happened while executing a delivered request *)
  forallb (fun o => existsb (fun c => c_tag c =? oo_for o) (k_reqs k)) (k_outs k) &&
  (* request order *)
  nondecreasing (map oo_for (k_outs k)) &&
  (* exactly one / none, echoing *)
  forallb (fun c => c09_req (k_cfg k) (k_hosted k) c (outs_for k c)) (k_reqs k).

(* C10: which units execute a delivered request *)
Definition addressed (cfg : scfg) (u : Z) (c : creq) : bool :=
  if cf_single cfg then true
  else if is_bcast cfg c then true
  else c_uid c =? u.

Definition spec_log (k : scase) (u : Z) : list Z :=
  map c_tag (filter (addressed (k_cfg k) u) (k_reqs k)).

Definition prop_c10 (k : scase) : bool :=
  (* every hosted unit executed exactly the requests addressed to it (or broadcast), once each, in order *)
  list_eqb log_eqb (map (fun u => (u, spec_log k u)) (k_hosted k)) (k_logs k) &&
  (* tables of a unit nobody addressed are untouched *)
  forallb (fun u => match spec_log k u with [] => false | _ => true end) (k_changed k) &&
  (* absent unit: no answer or a gateway exception *)
  forallb (fun c => if is_missing (k_cfg k) (k_hosted k) c && negb (is_bcast (k_cfg k) c)
                    then match outs_for k c with
                         | [] => true
                         | [o] => gateway_exc c o
                         | _ => false
                         end
                    else true) (k_reqs k) &&
  (* broadcast: no response *)
  forallb (fun c => if is_bcast (k_cfg k) c then match outs_for k c with [] => true | _ => false end else true)
          (k_reqs k).

Definition chk_c09 (k : scase) : bool * bool := (model_agrees k, prop_c09 k).
Definition chk_c10 (k : scase) : bool * bool := (model_agrees k, prop_c10 k).

(* ------------------------------------------------------------------ unit filter cases *)

Inductive fobs := FDelivered | FDropped | FRaised (e : pyexn).

Record fcase := { f_fe : string; f_cfg : scfg; f_hosted : list Z; f_uid : Z; f_obs : fobs }.

Definition fobs_of (r : res bool) : fobs :=
  match r with Ok true => FDelivered | Ok false => FDropped | Raise e => FRaised e end.

Definition fobs_eqb (a b : fobs) : bool :=
  match a, b with
  | FDelivered, FDelivered | FDropped, FDropped => true
  | FRaised e, FRaised f => pyexn_eqb e f
  | _, _ => false
  end.

(* spec: a frame for a hosted unit (any unit in single mode) reaches the server, and so does
   unit 0 when broadcast is enabled; a frame for a foreign unit may or may not be handed
   over (it is then answered with a gateway exception or ignored). *)
Definition prop_filter (f : fcase) : bool :=
  if cf_single (f_cfg f) || zmem (f_uid f) (f_hosted f) || (cf_bcast (f_cfg f) && (f_uid f =? 0))
  then fobs_eqb (f_obs f) FDelivered
  else match f_obs f with FRaised _ => false | _ => true end.

Definition chk_filter (f : fcase) : bool * bool :=
  (match assoc_s FES (f_fe f) with
   | None => false
   | Some sk => fobs_eqb (fobs_of (accepts C sk (f_cfg f) (f_hosted f) (f_uid f))) (f_obs f)
   end, prop_filter f).

End WithCode.
