(* Frontends_proofs.v — lemmas behind Props/C12.v and Props/C17.v.
   Part 1 is generic in the skeleton record; part 2 instantiates it with the skeletons
   regenerated from pymodbus/server/*.py (Generated/GenFrontends.v). *)
From PM.theories Require Import Base Ladder Frontends.
From PM.Generated Require Import GenFrontends.
Open Scope list_scope.
Open Scope Z_scope.
Arguments step_action : simpl never.
Arguments apply_action : simpl never.

(* ------------------------------------------------------------------------------------- *)
(* Part 1 — generic facts                                                                  *)
(* ------------------------------------------------------------------------------------- *)

Lemma step_action_none : forall L b, step_action L b None <> Escape.
Proof.
  intros L b. unfold step_action, handle_outcome.
  destruct b; destruct (ls_empty L); cbn; discriminate.
Qed.

Lemma with_stop_escape : forall a, with_stop a = Escape -> a = Escape.
Proof. intros a; destruct a; cbn; congruence. Qed.

(* a ladder is total on a class of exceptions when no member of the class falls through *)
Definition total_on (P : raised -> bool) (l : ladder) : Prop :=
  forall r, P r = true -> first_match l r <> None /\ first_match l r <> Some Escape.

Lemma step_action_total : forall L P, total_on P (ls_ladder L) ->
  forall b r, P r = true -> step_action L b (Some r) <> Escape.
Proof.
  intros L P HT b r HP. destruct (HT r HP) as [H1 H2].
  unfold step_action, handle_outcome.
  destruct (first_match (ls_ladder L) r) as [a|] eqn:Hf; [|congruence].
  assert (a <> Escape) by congruence.
  destruct b; destruct (ls_empty L); try assumption.
  intro Hw. apply with_stop_escape in Hw. contradiction.
Qed.

Section Generic.
  Variables FS Req Resp World : Type.
  Variable C : fe_code.
  Variable E : env FS Req Resp World.

  Notation serve_step := (serve_step FS Req Resp World C E).
  Notation serve_activation := (serve_activation FS Req Resp World C E).
  Notation serve_event := (serve_event FS Req Resp World C E).
  Notation deliver := (deliver FS Req Resp World E).
  Notation callback := (callback FS Req Resp World E).
  Notation conn_state := (conn_state FS Req Resp World C E).
  Notation open_conn := (open_conn FS Req Resp World E).
  Notation fresh_conn := (fresh_conn FS Req Resp World E).
  Notation fresh_server := (fresh_server FS Req Resp World E).
  Notation run_events := (run_events FS Req Resp World C E).
  Notation run_alone := (run_alone FS Req Resp World C E).

  (* the world after running the callback over the delivered requests *)
  Fixpoint exec_fold (X : exec_skel) (c : cfg) (w : World) (ds : list (FS * Req)) : World :=
    match ds with
    | [] => w
    | (_, r) :: t => match callback X c w r with
                     | CbSent _ w' _ => exec_fold X c w' t
                     | CbRaised _ w' _ => w'
                     end
    end.

  Lemma deliver_world : forall X c ds w ff exn acc,
    fst (fst (fst (deliver X c w ds ff exn acc))) = exec_fold X c w ds.
  Proof.
    induction ds as [|[f r] t IH]; intros; cbn; [reflexivity|].
    destruct (callback X c w r); cbn; [apply IH|reflexivity].
  Qed.

  (* the exception that ends an activation is always an ordinary Python Exception of the
     framer/decoder/execute layer, a transport fault, or nothing *)
  Definition no_escape_on_ordinary (L : loop_skel) : Prop :=
    forall b r, ordinary r = true -> step_action L b (Some r) <> Escape.

  Notation serve_data := (serve_data FS Req Resp World C E).

  Lemma serve_data_no_escape : forall fe c w cs bs,
    no_escape_on_ordinary (fc_loop C fe) ->
    snd (serve_data fe c w cs bs) <> Escape.
  Proof.
    intros fe c w cs bs H. unfold Frontends.serve_data.
    destruct (ls_units (fc_loop C fe)).
    1-3: destruct (e_recv _ _ _ _ E _ (cs_f _ cs) bs) as [[ds ff] exn];
         destruct (deliver (fc_exec C fe) c w ds ff exn []) as [[[w' f'] outs] exn'];
         cbn; destruct exn'; cbn; [apply H; reflexivity | apply step_action_none].
    cbn. apply H. reflexivity.
  Qed.

  Lemma serve_step_no_escape : forall fe c w cs i,
    no_escape_on_ordinary (fc_loop C fe) ->
    snd (serve_step fe c w cs i) <> Escape.
  Proof.
    intros fe c w cs i H. unfold Frontends.serve_step.
    destruct (pre_raise (fc_loop C fe)); [cbn; apply H; reflexivity|].
    destruct (ls_listen_gate (fc_loop C fe) && e_listen_only _ _ _ _ E w); [cbn; discriminate|].
    destruct i as [bs| |]; try (cbn; apply H; reflexivity).
    destruct (is_empty bs && empty_skips (fc_loop C fe)); [cbn; discriminate|].
    apply serve_data_no_escape; assumption.
  Qed.

  Lemma serve_activation_no_escape : forall fe c w cs i,
    no_escape_on_ordinary (fc_loop C fe) ->
    snd (serve_activation fe c w cs i) <> Escape.
  Proof.
    intros fe c w cs i H. unfold Frontends.serve_activation.
    destruct (ls_site (fc_loop C fe)); try (apply serve_step_no_escape; assumption).
    pose proof (serve_step_no_escape fe c w cs i H) as H1.
    destruct (serve_step fe c w cs i) as [[[w1 cs1] o1] a1]. cbn in H1.
    destruct (continues a1) eqn:Hc; [|exact H1].
    pose proof (serve_step_no_escape fe c w1 cs1 (IData []) H) as H2.
    destruct (serve_step fe c w1 cs1 (IData [])) as [[[w2 cs2] o2] a2]. cbn in H2 |- *.
    destruct a1; cbn in Hc; try discriminate; try exact H2.
    destruct a2; try exact H2; discriminate.
  Qed.

  Lemma serve_event_no_escape : forall fe c sv k i,
    no_escape_on_ordinary (fc_loop C fe) ->
    snd (serve_event fe c sv k i) <> Escape.
  Proof.
    intros fe c sv k i H. unfold Frontends.serve_event.
    pose proof (serve_activation_no_escape fe c (sv_world _ _ sv) (conn_state fe sv k) i H) as H1.
    destruct (serve_activation fe c (sv_world _ _ sv) (conn_state fe sv k) i) as [[[w' cs'] outs] a].
    exact H1.
  Qed.

  (* ---- the shared world changes only through the callback on delivered requests -------- *)

  Lemma serve_data_world : forall fe c w cs bs,
    fst (fst (fst (serve_data fe c w cs bs))) = w \/
    fst (fst (fst (serve_data fe c w cs bs))) =
      exec_fold (fc_exec C fe) c w
        (fst (fst (e_recv _ _ _ _ E (fargs_for FS Req Resp World E (fc_loop C fe) c w (is_empty bs)) (cs_f _ cs) bs))).
  Proof.
    intros. unfold Frontends.serve_data.
    destruct (ls_units (fc_loop C fe)); [right|right|right|left; reflexivity].
    all: destruct (e_recv _ _ _ _ E _ (cs_f _ cs) bs) as [[ds ff] exn];
         pose proof (deliver_world (fc_exec C fe) c ds w ff exn []) as Hd;
         destruct (deliver (fc_exec C fe) c w ds ff exn []) as [[[w' f'] outs] exn'];
         cbn in *; exact Hd.
  Qed.

  Lemma serve_step_world : forall fe c w cs i,
    fst (fst (fst (serve_step fe c w cs i))) = w \/
    exists bs, i = IData bs /\
      fst (fst (fst (serve_step fe c w cs i))) =
        exec_fold (fc_exec C fe) c w
          (fst (fst (e_recv _ _ _ _ E (fargs_for FS Req Resp World E (fc_loop C fe) c w (is_empty bs)) (cs_f _ cs) bs))).
  Proof.
    intros. unfold Frontends.serve_step.
    destruct (pre_raise (fc_loop C fe)); [left; reflexivity|].
    destruct (ls_listen_gate (fc_loop C fe) && e_listen_only _ _ _ _ E w); [left; reflexivity|].
    destruct i as [bs| |]; try (left; reflexivity).
    destruct (is_empty bs && empty_skips (fc_loop C fe)); [left; reflexivity|].
    destruct (serve_data_world fe c w cs bs) as [H|H]; [left; exact H|right; exists bs; split; [reflexivity|exact H]].
  Qed.

  Lemma serve_step_nothing_delivered : forall fe c w cs bs,
    fst (fst (e_recv _ _ _ _ E (fargs_for FS Req Resp World E (fc_loop C fe) c w (is_empty bs)) (cs_f _ cs) bs)) = [] ->
    fst (fst (fst (serve_step fe c w cs (IData bs)))) = w.
  Proof.
    intros fe c w cs bs H.
    destruct (serve_step_world fe c w cs (IData bs)) as [Hw|[bs' [Hi Hw]]]; [exact Hw|].
    inversion Hi; subst bs'. rewrite Hw, H. reflexivity.
  Qed.

  Lemma serve_step_fault_world : forall fe c w cs i,
    (i = ITimeout \/ i = ISockErr) -> fst (fst (fst (serve_step fe c w cs i))) = w.
  Proof.
    intros fe c w cs i Hi.
    destruct (serve_step_world fe c w cs i) as [Hw|[bs [Hb _]]]; [exact Hw|].
    destruct Hi; subst i; discriminate.
  Qed.

  (* ---- connection table ---------------------------------------------------------------- *)

  Lemma conn_get_put_same : forall l k s, conn_get FS (conn_put FS l k s) k = Some s.
  Proof.
    induction l as [|[j s0] t IH]; intros; cbn.
    - rewrite Nat.eqb_refl. reflexivity.
    - destruct (Nat.eqb j k) eqn:Hj; cbn; rewrite Hj; [reflexivity|apply IH].
  Qed.

  Lemma conn_get_put_other : forall l k j s, j <> k -> conn_get FS (conn_put FS l k s) j = conn_get FS l j.
  Proof.
    induction l as [|[i s0] t IH]; intros k j s Hjk; cbn.
    - destruct (Nat.eqb k j) eqn:H; [apply Nat.eqb_eq in H; congruence|reflexivity].
    - destruct (Nat.eqb i k) eqn:Hik; cbn.
      + destruct (Nat.eqb i j) eqn:Hij; [|reflexivity].
        apply Nat.eqb_eq in Hik. apply Nat.eqb_eq in Hij. congruence.
      + destruct (Nat.eqb i j); [reflexivity|apply IH; assumption].
  Qed.

  (* a new connection starts from the initial framer state whatever happened before *)
  Lemma fresh_connection_state : forall fe sv k,
    ls_site (fc_loop C fe) <> PerServer ->
    conn_state fe (open_conn sv k) k = fresh_conn.
  Proof.
    intros fe sv k H. unfold Frontends.conn_state, Frontends.open_conn.
    destruct (ls_site (fc_loop C fe)); [|reflexivity|congruence].
    cbn. rewrite conn_get_put_same. reflexivity.
  Qed.

  (* ... so what it answers depends on the shared world only *)
  Lemma fresh_connection_answer : forall fe c sv k i,
    ls_site (fc_loop C fe) <> PerServer ->
    let r1 := serve_event fe c (open_conn sv k) k i in
    let r2 := serve_event fe c (open_conn (fresh_server (sv_world _ _ sv)) k) k i in
    snd (fst r1) = snd (fst r2) /\ snd r1 = snd r2 /\ sv_world _ _ (fst (fst r1)) = sv_world _ _ (fst (fst r2)).
  Proof.
    intros fe c sv k i H. cbn zeta. unfold Frontends.serve_event.
    rewrite !fresh_connection_state by assumption.
    change (sv_world _ _ (open_conn sv k)) with (sv_world _ _ sv).
    change (sv_world _ _ (open_conn (fresh_server (sv_world _ _ sv)) k)) with (sv_world _ _ sv).
    destruct (serve_activation fe c (sv_world _ _ sv) fresh_conn i) as [[[w' cs'] outs] a].
    destruct (ls_site (fc_loop C fe)); cbn; repeat split; reflexivity.
  Qed.

  (* a step on connection k leaves the framer state of every other connection alone *)
  Lemma conn_private : forall fe c sv k j i,
    ls_site (fc_loop C fe) <> PerServer -> j <> k ->
    conn_state fe (fst (fst (serve_event fe c sv k i))) j = conn_state fe sv j.
  Proof.
    intros fe c sv k j i H Hjk. unfold Frontends.serve_event.
    destruct (serve_activation fe c (sv_world _ _ sv) (conn_state fe sv k) i) as [[[w' cs'] outs] a].
    unfold Frontends.conn_state.
    destruct (ls_site (fc_loop C fe)); cbn; [|reflexivity|congruence].
    rewrite conn_get_put_other by assumption. reflexivity.
  Qed.

  Lemma conn_own : forall fe c sv k i,
    ls_site (fc_loop C fe) = PerConnection ->
    conn_state fe (fst (fst (serve_event fe c sv k i))) k =
    snd (fst (fst (serve_activation fe c (sv_world _ _ sv) (conn_state fe sv k) i))).
  Proof.
    intros fe c sv k i H. unfold Frontends.serve_event.
    destruct (serve_activation fe c (sv_world _ _ sv) (conn_state fe sv k) i) as [[[w' cs'] outs] a].
    unfold Frontends.conn_state. rewrite H. cbn. rewrite conn_get_put_same. reflexivity.
  Qed.

  (* ---- interleaving ---------------------------------------------------------------------- *)

  Definition mine (k : nat) (lg : list (logrec World)) : list (logrec World) :=
    filter (fun r => Nat.eqb (lg_conn _ r) k) lg.

  Lemma interleave : forall fe c k evs sv,
    ls_site (fc_loop C fe) = PerConnection ->
    let '(svf, lg) := run_events fe c sv evs in
    run_alone fe c (conn_state fe sv k) (map (fun r => (lg_world _ r, lg_input _ r)) (mine k lg)) =
    (conn_state fe svf k, map (fun r => (lg_out _ r, lg_action _ r)) (mine k lg)).
  Proof.
    intros fe c k evs. induction evs as [|[j i] t IH]; intros sv Hs; cbn.
    - reflexivity.
    - destruct (serve_event fe c sv j i) as [[sv' o] a] eqn:Hev.
      specialize (IH sv' Hs).
      destruct (run_events fe c sv' t) as [svf lg]. cbn.
      destruct (Nat.eqb j k) eqn:Hjk; cbn.
      + apply Nat.eqb_eq in Hjk. subst j.
        pose proof (conn_own fe c sv k i Hs) as Hown. rewrite Hev in Hown. cbn [fst snd] in Hown.
        unfold Frontends.serve_event in Hev.
        destruct (serve_activation fe c (sv_world _ _ sv) (conn_state fe sv k) i) as [[[w' cs'] outs] a'] eqn:Hact.
        cbn [fst snd] in Hown.
        injection Hev as Hsv Ho Ha. subst o a.
        unfold mine in *. rewrite <- Hown, IH. reflexivity.
      + apply Nat.eqb_neq in Hjk.
        assert (Hk : conn_state fe sv' k = conn_state fe sv k).
        { pose proof (conn_private fe c sv j k i) as Hp. rewrite Hev in Hp. cbn in Hp.
          apply Hp; [rewrite Hs; discriminate|congruence]. }
        unfold mine in *. rewrite <- Hk. exact IH.
  Qed.
End Generic.

(* ------------------------------------------------------------------------------------- *)
(* Part 2 — the skeletons regenerated from pymodbus/server/{sync,async_io,asynchronous}.py *)
(* ------------------------------------------------------------------------------------- *)

(* the front-ends whose loop ends in a catch-all *)
Definition catch_all_fe (fe : frontend) : bool :=
  match fe with SyncTcp | SyncSerial | SyncUdp | AioTcp | AioUdp => true | TwTcp | TwUdp => false end.

Lemma generated_no_escape : forall fe, catch_all_fe fe = true -> no_escape_on_ordinary (fc_loop code fe).
Proof.
  intros fe Hfe b r Hr.
  destruct fe; try discriminate Hfe; destruct b;
    destruct r as [e| | | |]; try discriminate Hr; try destruct e; vm_compute; discriminate.
Qed.

(* the bare `except:` of the threaded TCP handler also contains BaseExceptions *)
Lemma sync_tcp_contains_everything : forall b r, step_action (fc_loop code SyncTcp) b (Some r) <> Escape.
Proof. intros b r; destruct b; destruct r as [e| | | |]; try destruct e; vm_compute; discriminate. Qed.

(* asyncio: task cancellation is caught as well *)
Lemma aio_contains_cancel : forall fe b, (fe = AioTcp \/ fe = AioUdp) ->
  step_action (fc_loop code fe) b (Some RCancelled) = Continue.
Proof. intros fe b [H|H]; subst; destruct b; reflexivity. Qed.

(* after an exception of the framer/decoder/execute layer the offending data is discarded or the
   connection is closed — the handler never carries on with the poisoned buffer *)
Lemma generated_recovers : forall fe b e, catch_all_fe fe = true ->
  let a := step_action (fc_loop code fe) b (Some (RPy e)) in
  a = StopReset \/ a = ResetFrame \/ a = CloseTransport.
Proof.
  intros fe b e Hfe. destruct fe; try discriminate Hfe; destruct b; destruct e; vm_compute; tauto.
Qed.

(* the execute()/_execute() ladders: every exception class is turned into a Modbus exception
   response (or silence, for a missing unit under ignore_missing_slaves) *)
Lemma generated_exec_policy : forall fe e,
  first_match (xs_ladder (fc_exec code fe)) (RPy e) =
  Some (match e with NoSuchSlaveExc => XIgnoreOrExc 11 | _ => XExc 4 end).
Proof. intros fe e; destruct fe; destruct e; reflexivity. Qed.

(* Twisted TCP: no handler at all *)
Lemma twisted_tcp_ladder_empty : forall b r, step_action (fc_loop code TwTcp) b (Some r) = Escape.
Proof. intros b r; destruct b; reflexivity. Qed.

Section Generated.
  Variables FS Req Resp World : Type.
  Variable E : env FS Req Resp World.
  Notation serve_step := (serve_step FS Req Resp World code E).
  Notation serve_data := (serve_data FS Req Resp World code E).
  Notation serve_event := (serve_event FS Req Resp World code E).
  Notation deliver := (deliver FS Req Resp World E).
  Notation callback := (callback FS Req Resp World E).
  Notation fargs_for := (fargs_for FS Req Resp World E).

  Lemma total_generated : forall fe c sv k i, catch_all_fe fe = true ->
    snd (serve_event fe c sv k i) <> Escape.
  Proof. intros. apply serve_event_no_escape. apply generated_no_escape. assumption. Qed.

  (* what the framer raises on a chunk escapes dataReceived; nothing is reset, so the same bytes
     are still in the buffer when the next chunk arrives *)
  Lemma twisted_tcp_escapes : forall c w cs bs ff e,
    e_listen_only _ _ _ _ E w = false ->
    e_recv _ _ _ _ E (fargs_for (fc_loop code TwTcp) c w (is_empty bs)) (cs_f _ cs) bs = ([], ff, Some e) ->
    serve_step TwTcp c w cs (IData bs) =
      (w, {| cs_f := ff; cs_running := cs_running _ cs && true; cs_closed := cs_closed _ cs |}, [], Escape).
  Proof.
    intros c w cs bs ff e Hl Hr. unfold Frontends.serve_step.
    change (pre_raise (fc_loop code TwTcp)) with (@None pyexn).
    change (ls_listen_gate (fc_loop code TwTcp)) with true. rewrite Hl. cbn [andb].
    change (empty_skips (fc_loop code TwTcp)) with false. rewrite Bool.andb_false_r.
    unfold Frontends.serve_data.
    change (ls_units (fc_loop code TwTcp)) with UnitsRaw. cbv iota. rewrite Hr. cbn [Frontends.deliver option_map].
    rewrite twisted_tcp_ladder_empty. reflexivity.
  Qed.

  (* where nothing is raised Twisted TCP is as good as the others *)
  Lemma twisted_tcp_partial : forall c w cs bs,
    (let '(ds, ff, exn) := e_recv _ _ _ _ E (fargs_for (fc_loop code TwTcp) c w (is_empty bs)) (cs_f _ cs) bs in
     snd (deliver (fc_exec code TwTcp) c w ds ff exn []) = None) ->
    snd (serve_step TwTcp c w cs (IData bs)) <> Escape.
  Proof.
    intros c w cs bs H. unfold Frontends.serve_step.
    change (pre_raise (fc_loop code TwTcp)) with (@None pyexn).
    destruct (ls_listen_gate (fc_loop code TwTcp) && e_listen_only _ _ _ _ E w); [cbn; discriminate|].
    change (empty_skips (fc_loop code TwTcp)) with false. rewrite Bool.andb_false_r.
    unfold Frontends.serve_data.
    change (ls_units (fc_loop code TwTcp)) with UnitsRaw. cbv iota.
    destruct (e_recv _ _ _ _ E _ (cs_f _ cs) bs) as [[ds ff] exn].
    destruct (deliver (fc_exec code TwTcp) c w ds ff exn []) as [[[w' f'] outs] exn'].
    cbn in H. subst exn'. cbn [snd option_map]. apply step_action_none.
  Qed.

  (* Twisted UDP: every datagram raises TypeError before the framer is reached *)
  Lemma twisted_udp_dead : forall c w cs i,
    let r := serve_step TwUdp c w cs i in
    fst (fst (fst r)) = w /\ cs_f _ (snd (fst (fst r))) = cs_f _ cs /\ snd (fst r) = [] /\ snd r = Escape.
  Proof. intros. cbn. repeat split; reflexivity. Qed.
End Generated.

(* ------------------------------------------------------------------------------------- *)
(* Part 3 — C17: the three stream front-ends against each other                            *)
(* ------------------------------------------------------------------------------------- *)

Definition exec_agree (X Y : exec_skel) : Prop :=
  xs_ladder X = xs_ladder Y /\ xs_copy_tid X = xs_copy_tid Y /\ xs_copy_uid X = xs_copy_uid Y /\
  xs_send_checks_respond X = xs_send_checks_respond Y.

Definition stream_fe (fe : frontend) : Prop := fe = SyncTcp \/ fe = AioTcp \/ fe = TwTcp.

Lemma generated_exec_agree : forall a b, stream_fe a -> stream_fe b -> exec_agree (fc_exec code a) (fc_exec code b).
Proof.
  intros a b [Ha|[Ha|Ha]] [Hb|[Hb|Hb]]; subst; repeat split; reflexivity.
Qed.

Section Equiv.
  Variables FS Req Resp World : Type.
  Variable E : env FS Req Resp World.
  Notation serve_step := (serve_step FS Req Resp World code E).
  Notation serve_data := (serve_data FS Req Resp World code E).
  Notation deliver := (deliver FS Req Resp World E).
  Notation callback := (callback FS Req Resp World E).
  Notation tail := (tail FS Req Resp World E).
  Notation send := (send FS Req Resp World E).
  Notation fargs_for := (fargs_for FS Req Resp World E).
  Notation run_conn := (run_conn FS Req Resp World code E).

  (* the features the three front-ends have in common: no broadcast option (Twisted has none),
     listen-only mode never entered (only Twisted honours it), and a world abstraction that does
     not observe the bus-message counter (only Twisted increments it) *)
  Record common_features (c : cfg) : Prop := {
    cf_no_broadcast : cfg_broadcast c = false;
    cf_no_listen_only : forall w, e_listen_only _ _ _ _ E w = false;
    cf_bus_blind : forall w, e_count_bus _ _ _ _ E w = w }.

  Lemma send_equiv : forall X Y w p, exec_agree X Y -> (forall w, e_count_bus _ _ _ _ E w = w) ->
    send X w p = send Y w p.
  Proof.
    intros X Y w p (_ & _ & _ & Hr) Hbus. unfold Frontends.send. rewrite Hr, !Hbus.
    destruct (xs_counts_bus X), (xs_counts_bus Y); reflexivity.
  Qed.

  Lemma tail_equiv : forall X Y w r p, exec_agree X Y -> (forall w, e_count_bus _ _ _ _ E w = w) ->
    tail X false w r p = tail Y false w r p.
  Proof.
    intros X Y w r p HA Hbus. pose proof HA as (_ & Ht & Hu & _). unfold Frontends.tail.
    rewrite !Bool.andb_false_r. destruct p as [p|]; [|reflexivity].
    rewrite Ht, Hu. apply send_equiv; assumption.
  Qed.

  Lemma callback_equiv : forall X Y c w r, exec_agree X Y -> cfg_broadcast c = false ->
    (forall w, e_count_bus _ _ _ _ E w = w) -> callback X c w r = callback Y c w r.
  Proof.
    intros X Y c w r HA Hb Hbus. pose proof HA as (Hl & _). unfold Frontends.callback.
    rewrite Hb, !Bool.andb_false_r. cbn [andb].
    destruct (e_run _ _ _ _ E w (e_uid _ _ _ _ E r) r) as [w1 [p|e]].
    - apply tail_equiv; assumption.
    - rewrite Hl. destruct (first_match (xs_ladder Y) (RPy e)) as [[code|code]|]; [| |reflexivity].
      + destruct (cfg_ignore_missing c); [reflexivity|apply tail_equiv; assumption].
      + apply tail_equiv; assumption.
  Qed.

  Lemma deliver_equiv : forall X Y c ds w ff exn acc, exec_agree X Y -> cfg_broadcast c = false ->
    (forall w, e_count_bus _ _ _ _ E w = w) ->
    deliver X c w ds ff exn acc = deliver Y c w ds ff exn acc.
  Proof.
    induction ds as [|[f r] t IH]; intros; cbn; [reflexivity|].
    rewrite (callback_equiv X Y) by assumption.
    destruct (callback Y c w r); [apply IH; assumption|reflexivity].
  Qed.

  Lemma prep_units_no_broadcast : forall c us, cfg_broadcast c = false -> prep_units c us = us.
  Proof. intros c us H. unfold prep_units. rewrite H. reflexivity. Qed.

  Lemma fargs_equiv : forall a b c w e, stream_fe a -> stream_fe b -> cfg_broadcast c = false ->
    fargs_for (fc_loop code a) c w e = fargs_for (fc_loop code b) c w e.
  Proof.
    intros a b c w e Ha Hb Hc. unfold Frontends.fargs_for, Frontends.units_for.
    destruct Ha as [Ha|[Ha|Ha]], Hb as [Hb|[Hb|Hb]]; subst; cbn;
      rewrite ?prep_units_no_broadcast by assumption; destruct e; reflexivity.
  Qed.

  (* the part of an activation that does not depend on the ladder *)
  Definition data_core (fe : frontend) (c : cfg) (w : World) (f : FS) (bs : bytes) :=
    let '(ds, ffinal, exn) := e_recv _ _ _ _ E (fargs_for (fc_loop code fe) c w (is_empty bs)) f bs in
    deliver (fc_exec code fe) c w ds ffinal exn [].

  Lemma data_core_equiv : forall a b c w f bs, stream_fe a -> stream_fe b -> common_features c ->
    data_core a c w f bs = data_core b c w f bs.
  Proof.
    intros a b c w f bs Ha Hb [Hc _ Hbus]. unfold data_core.
    rewrite (fargs_equiv a b) by assumption.
    destruct (e_recv _ _ _ _ E _ f bs) as [[ds ff] exn].
    apply deliver_equiv; [apply generated_exec_agree| |]; assumption.
  Qed.

  Lemma serve_step_core : forall fe c w cs bs, stream_fe fe -> common_features c -> bs <> [] ->
    serve_step fe c w cs (IData bs) =
    let '(w', f', outs, exn') := data_core fe c w (cs_f _ cs) bs in
    let a := step_action (fc_loop code fe) false (option_map RPy exn') in
    (w', apply_action _ _ _ _ E (fc_loop code fe) a f' cs, outs, a).
  Proof.
    intros fe c w cs bs Hfe [Hc Hl Hbus] Hbs.
    assert (He : is_empty bs = false) by (destruct bs; [congruence|reflexivity]).
    unfold Frontends.serve_step, Frontends.serve_data, data_core. rewrite Hl, He.
    destruct Hfe as [H|[H|H]]; subst fe; cbn [pre_raise fc_loop code loop_of loop_SyncTcp loop_AioTcp loop_TwTcp
      ls_addr_fmt ls_listen_gate ls_units andb];
      destruct (e_recv _ _ _ _ E _ (cs_f _ cs) bs) as [[ds ff] exn]; reflexivity.
  Qed.

  (* one chunk: same world, same bytes sent, same framer state before the ladder acts *)
  Lemma step_equiv : forall a b c w cs bs, stream_fe a -> stream_fe b -> common_features c -> bs <> [] ->
    let ra := serve_step a c w cs (IData bs) in
    let rb := serve_step b c w cs (IData bs) in
    fst (fst (fst ra)) = fst (fst (fst rb)) /\ snd (fst ra) = snd (fst rb) /\
    (snd ra = Continue -> ra = rb).
  Proof.
    intros a b c w cs bs Ha Hb Hc Hbs. cbn zeta.
    rewrite (serve_step_core a), (serve_step_core b) by assumption.
    rewrite (data_core_equiv a b) by assumption.
    destruct (data_core b c w (cs_f _ cs) bs) as [[[w' f'] outs] exn']. cbn [fst snd].
    repeat split.
    intro Hcont. destruct exn' as [e|]; cbn [option_map] in *.
    - exfalso. destruct Ha as [H|[H|H]]; subst a; destruct e; vm_compute in Hcont; discriminate.
    - destruct Ha as [H|[H|H]], Hb as [H'|[H'|H']]; subst; reflexivity.
  Qed.

  (* a whole connection: as long as nothing is raised the three front-ends are the same function
     of (world, chunk list) *)
  Fixpoint clean (fe : frontend) (c : cfg) (w : World) (cs : connstate FS) (chunks : list bytes) : bool :=
    match chunks with
    | [] => true
    | b :: t => let '(w', cs', _, a) := serve_step fe c w cs (IData b) in
                action_eqb a Continue && clean fe c w' cs' t
    end.

  Lemma action_eqb_continue : forall a, action_eqb a Continue = true -> a = Continue.
  Proof. intros a; destruct a; cbn; congruence. Qed.

  Lemma conn_equiv : forall a b c chunks w cs, stream_fe a -> stream_fe b -> common_features c ->
    Forall (fun bs => bs <> []) chunks -> clean a c w cs chunks = true ->
    run_conn a c w cs chunks = run_conn b c w cs chunks.
  Proof.
    intros a b c chunks. induction chunks as [|bs t IH]; intros w cs Ha Hb Hc Hne Hcl; [reflexivity|].
    inversion Hne as [|? ? Hbs Ht]; subst.
    destruct (step_equiv a b c w cs bs Ha Hb Hc Hbs) as (_ & _ & Heq).
    cbn [clean Frontends.run_conn] in *.
    destruct (serve_step a c w cs (IData bs)) as [[[w1 cs1] o1] a1].
    apply andb_prop in Hcl. destruct Hcl as [Hc1 Hcl]. apply action_eqb_continue in Hc1. subst a1.
    rewrite <- (Heq eq_refl). rewrite (IH w1 cs1) by assumption. reflexivity.
  Qed.
End Equiv.
