"""C01 — PDU wire format conforms to the Modbus application protocol."""
from lib import common
from lib.coqrun import lst
from lib.main import Case, Suite
from props import lib_pdu as L

ID = "C01"
GENERATORS = ["pdu"]
PROP_FILE = "C01"
CASE_DEPS = L.CASE_DEPS
IMPORTS = L.IMPORTS
RULE = ("enc: one instance of every registered class (all diagnostic sub-classes, exception responses) per "
        "boundary-value draw and per list length 0..wire maximum+1; observation bytes([fc]) + encode() or the "
        "exception class.  dec: spec-conformant PDUs of every message kind (built by an independent Python "
        "transcription of the spec and cross-checked against spec_pdu inside Coq) through the matching decoder; "
        "observation = class + public fields of _helper()'s and decode()'s result.  mal: every truncation, "
        "trailing bytes, byte-count mismatches of those PDUs through BOTH decoders, all 1-byte PDUs, 2-byte "
        "PDUs per function code, the empty PDU.  A case is non-trivial when the implementation returned a "
        "value (not an exception); distinct = distinct Coq case terms")
TRUSTED = [
    "modelled by hand, tied by correspondence only: the bodies of the irregular encode/decode methods "
    "(bit/register lists, file records, diagnostics, comm event log, slave id, FIFO, device information), "
    "pack_bitstring/unpack_bitstring, both _helper dispatchers and decode() wrappers (coq/theories/Pdu.v)",
    "generated from source on every run (Generated/GenPdu.v): function and sub-function codes of all 72 classes, "
    "the four decoder tables, struct layouts (byte order, field widths, attribute order) of the 11 fixed-format "
    "classes, every struct format literal of the hand-modelled methods (proved equal to the modelled ones), "
    "exception codes, ExceptionOffset, the > 0x80 / & 0x7f constants, ModbusStatus / MoreData constants",
    "spec side: coq/theories/PduSpec.v, a transcription of MODBUS Application Protocol v1.1b3 section 6",
]
ASSUMPTIONS = ["message attributes are Python ints / bools / lists of ints / bytes (no str payloads, skip_encode False)",
               "struct.pack/unpack behave as modelled in coq/theories/Struct.v (range check, exact-length check)"]


def enc_case(spec):
    """never raises: a constructor that raises or an instance that cannot be dumped is an Unexpected case"""
    term, o, err = L.safe_obj_term(lambda: L.build(spec), spec)
    if err is not None:
        obs = L.unexpected("bytes", "cannot build/dump %s: %s" % (spec[0], err))
        return Case("(OIllegal 0, %s)" % obs, {"class": spec[0], "args": repr(spec[1:])[:600], "observed": obs[:400]},
                    kind=spec[0], nontrivial=False)
    obs, v, e = L.res(lambda: L.pdu_of(o), L.nbytes, "bytes")
    desc = {"class": spec[0], "args": repr(spec[1:])[:600], "observed": obs[:400]}
    return Case("(%s, %s)" % (term, obs), desc, kind=spec[0], nontrivial=e is None)


def dec_case(server, m, data, kind):
    """never raises: whatever the decoders return or raise becomes an observation in the case term"""
    obs, o, e = L.res(lambda: L.helper(server, data), L.obj_term, "obj")
    wobs, _, _ = L.res(lambda: L.wrapper(server, data), L.optobj, "option obj")
    try:
        om = "(@None msg)" if m is None else "(Some %s)" % L.msg_term(m)
    except Exception as x:  # noqa: BLE001 — a harness-side printing problem must not stop the other cases
        om, obs = "(@None msg)", L.unexpected("obj", "harness could not print the message: %r" % (x,))
    term = "(%s, %s, %s, %s, %s)" % ("true" if server else "false", om, L.nbytes(bytes(data)), obs, wobs)
    desc = {"server": server, "kind": None if m is None else m[0], "msg": None if m is None else repr(m),
            "ndata": len(m[2]) if m is not None and m[0] in ("MDiagReq", "MDiagRsp") else None,
            "pdu": bytes(data).hex(), "observed": obs[:400]}
    return Case(term, desc, kind=kind, nontrivial=e is None)


def guarded(fn, fallback_term, label):
    """last resort: an exception escaping a case builder becomes an Unexpected case, not a crash of suites()"""
    try:
        return fn()
    except Exception as e:  # noqa: BLE001
        txt = "%s: %s" % (type(e).__name__, e)
        return Case(fallback_term(txt), {"class": label, "kind": label, "observed": "Unexpected " + txt[:300]},
                    kind=str(label), nontrivial=False)


def enc_fallback(txt):
    return "(OIllegal 0, %s)" % L.unexpected("bytes", "case builder failed: " + txt)


def dec_fallback(txt):
    u = "case builder failed: " + txt
    return '(true, @None msg, []%%N, %s, %s)' % (L.unexpected("obj", u), L.unexpected("option obj", u))


def suite_enc(tier):
    r = common.rng("C01.enc")
    return Suite("enc", IMPORTS, "chk_enc",
                 [guarded(lambda s=s: enc_case(s), enc_fallback, s[0]) for s in L.class_specs(r, tier)], shard=250)


def suite_dec(tier):
    r = common.rng("C01.dec")
    cases = []
    for m in L.spec_msgs(r, tier):
        try:
            data = L.spec_bytes(m)
        except Exception:  # noqa: BLE001 — harness-side; skip this message, keep the others
            continue
        cases.append(guarded(lambda m=m, data=data: dec_case(m[0] in L.REQUEST_KINDS, m, data, m[0]), dec_fallback, m[0]))
    return Suite("dec", IMPORTS, "chk_dec", cases, shard=250)


def suite_mal(tier):
    r = common.rng("C01.mal")
    seen, cases = set(), []

    def add(server, data, kind):
        if (server, data) not in seen and len(data) <= 300:
            seen.add((server, data))
            cases.append(guarded(lambda: dec_case(server, None, data, kind), dec_fallback, kind))

    pdus = []
    for m in L.spec_msgs(r, "quick"):
        try:
            b = L.spec_bytes(m)
        except Exception:  # noqa: BLE001
            continue
        if len(b) <= (40 if tier == "quick" else 300):
            pdus.append(b)
    # the library's own encodings too (so that its non-conforming layouts are also truncated)
    for s in L.class_specs(r, "quick", bad=0.0):
        try:
            b = L.pdu_of(L.build(s))
        except Exception:  # noqa: BLE001
            continue
        if len(b) <= (24 if tier == "quick" else 300):
            pdus.append(b)
    pdus = sorted(set(pdus))
    r.shuffle(pdus)
    if tier == "quick":
        pdus = pdus[:260]
    for b in pdus:
        for server in (True, False):
            for cut in range(0, len(b)):
                add(server, b[:cut], "truncation")
            add(server, b + b"\x00", "trailing")
            add(server, b + bytes([r.randrange(256), r.randrange(256)]), "trailing")
            if len(b) >= 2:
                for v in (0, 1, b[1] - 1, b[1] + 1, 255):
                    add(server, bytes([b[0], v & 0xff]) + b[2:], "count-mismatch")
            if len(b) >= 6:
                for pos in (4, 5):
                    add(server, b[:pos] + bytes([(b[pos] + r.choice([1, 2, 255])) & 0xff]) + b[pos + 1:], "count-mismatch")
            add(server, b, "cross-direction")
    for fc in range(256):
        for server in (True, False):
            add(server, bytes([fc]), "one-byte")
            for second in ((0, 1, 14, 255) if tier == "quick" else range(256)):
                add(server, bytes([fc, second]), "two-byte")
    add(True, b"", "empty")
    add(False, b"", "empty")
    return Suite("mal", IMPORTS, "chk_dec", cases, shard=300)


def suites(tier):
    return [suite_enc(tier), suite_dec(tier), suite_mal(tier)]


# ----------------------------------------------------------------------------- findings / replay

def classify(suite, desc):
    if "Unexpected" in (desc.get("observed") or ""):
        return None                       # an undumpable outcome is never a known finding
    if suite == "enc":
        if desc.get("class") == "ReadFifoQueueResponse":
            return "F-C01-fifo-response"
        if desc.get("class") == "ReadFileRecordResponse":
            return "F-C01-file-record-response-encode"
    if suite == "dec":
        k = desc.get("kind")
        if k == "MReadFifoRsp":
            return "F-C01-fifo-response"
        if k == "MReportSlaveIdRsp":
            return "F-C01-slave-id-decode"
        if k == "MDiagReq" and desc.get("ndata") != 1:
            return "F-C01-diag-request-data"
    return None


def replay_finding(f):
    """True when the witness still violates the property on the implementation (a crash while
    replaying counts as still violating)."""
    try:
        return _replay_finding(f)
    except Exception:  # noqa: BLE001
        return True


def _replay_finding(f):
    N = L.ns()
    w = f["witness"]
    fid = f["id"]
    if fid == "F-C01-fifo-response":
        o = N["ReadFifoQueueResponse"](list(w["values"]))
        enc_bad = L.pdu_of(o).hex() != w["spec_pdu"]
        d = L.helper(False, bytes.fromhex(w["spec_pdu"]))
        return enc_bad or list(d.values) != list(w["values"])
    if fid == "F-C01-file-record-response-encode":
        o = N["ReadFileRecordResponse"]([N["FileRecord"](record_data=bytes.fromhex(w["record_data"]))])
        return L.pdu_of(o).hex() != w["spec_pdu"]
    if fid == "F-C01-slave-id-decode":
        d = L.helper(False, bytes.fromhex(w["spec_pdu"]))
        return bytes(d.identifier).hex() != w["identifier"]
    if fid == "F-C01-diag-request-data":
        try:
            d = L.helper(True, bytes.fromhex(w["spec_pdu"]))
            return not (type(d).__name__ == "ReturnQueryDataRequest" and list(d.message) == list(w["data"]))
        except Exception:  # noqa: BLE001
            return True
    return None


def replay_case(suite, desc):
    import json
    from lib import coqrun
    print(json.dumps(desc)[:1500])
    if suite in ("dec", "mal"):
        m = eval(desc["msg"]) if desc.get("msg") else None  # noqa: S307
        c = dec_case(desc["server"], m, bytes.fromhex(desc["pdu"]), "replay")
        r = coqrun.eval_cases("C01_replay", IMPORTS, "chk_dec", [c.term])
        print("now:", c.desc["observed"], r)
        return bool(r["propfail"] or r["errors"] or r["disagree"])
    print("replay of suite %s: re-run ./check C01 with VERIF_SEED from the replay file" % suite)
    return True


MANIFEST = {
    "text": ("Coq theorems (Props/C01.v), universally quantified over all field values and list lengths: the "
             "library's bit packing equals LSB-first packing with zero padding; for the explicitly listed "
             "conforming classes bytes([fc])+encode() is byte-for-byte the PDU that a transcription of "
             "Modbus Application Protocol v1.1b3 section 6 defines, and spec-conformant PDUs decode to the "
             "matching class with the wire's field values; sub-function dispatch over the regenerated factory "
             "tables; exception layout fc|0x80 + code; out-of-width fields raise struct.error. Classes where "
             "the pinned code violates the spec (FIFO response, file-record response encode, slave-id decode, "
             "multi-word diagnostic requests) have _refuted witnesses and are listed as known findings."),
    "note": ("Trusted: Coq kernel; translator shape matching (tables, layouts, format literals); hand model of the "
             "irregular encode/decode bodies, tied on every run by structured + malformed correspondence through "
             "the real classes and both decoders, with spec_pdu as the oracle."),
    "design_ref": "DESIGN.md section 8 (C01)",
}
