(* Async_proofs.v — proofs about theories/AsyncClient.v (C16): invariants by induction over
   arbitrary operation lists, for any [async_code] that has what the unmodified source has
   ([good_code]); Props/C16.v instantiates them with Generated/GenAsync.code. *)
From PM.theories Require Import Base AsyncClient.
From Coq Require Import Permutation.
Open Scope list_scope.
Open Scope N_scope.

(* ---- the two table implementations ---------------------------------------------------------- *)

Lemma NoDup_snoc : forall (A : Type) (l : list A) x, NoDup l -> ~ In x l -> NoDup (l ++ [x]).
Proof.
  intros A l x Hn Hx. apply (@Permutation_NoDup A (x :: l)); [apply Permutation_cons_append|constructor; auto].
Qed.

Lemma perm_exec : forall (l p p' f ol : list N) d iss,
  Permutation (p' ++ ol) (d :: p) -> Permutation (l ++ p ++ f) iss ->
  Permutation ((l ++ ol) ++ p' ++ f) (iss ++ [d]).
Proof.
  intros l p p' f ol d iss H1 H2.
  rewrite <- Permutation_cons_append. rewrite <- H2. rewrite <- app_assoc.
  rewrite (Permutation_middle l (p ++ f) d). apply Permutation_app_head.
  rewrite app_assoc. change (d :: p ++ f) with ((d :: p) ++ f). apply Permutation_app_tail.
  rewrite <- H1. apply Permutation_app_comm.
Qed.

Definition olist (o : option N) : list N := match o with Some x => [x] | None => [] end.

Lemma dset_perm : forall p k d p' o, dset p k d = (p', o) ->
  Permutation (map snd p' ++ olist o) (d :: map snd p).
Proof.
  induction p as [|[k' d'] r IH]; intros k d p' o H; cbn in H.
  - inversion H; subst. cbn. apply Permutation_refl.
  - destruct (N.eqb k' k).
    + inversion H; subst. cbn. rewrite <- Permutation_cons_append. apply Permutation_refl.
    + destruct (dset r k d) as [r' o'] eqn:E. inversion H; subst. cbn.
      rewrite (IH _ _ _ _ E). apply perm_swap.
Qed.

Lemma dpop_perm : forall p k d p', dpop p k = Some (d, p') ->
  Permutation (d :: map snd p') (map snd p).
Proof.
  induction p as [|[k' d'] r IH]; intros k d p' H; cbn in H; [discriminate|].
  destruct (N.eqb k' k).
  - inversion H; subst. apply Permutation_refl.
  - destruct (dpop r k) as [[x r']|] eqn:E; [|discriminate]. inversion H; subst. cbn.
    rewrite perm_swap. rewrite (IH _ _ _ E). apply Permutation_refl.
Qed.

Lemma add_tx_perm : forall v p k d p' o, add_tx v p k d = (p', o) ->
  Permutation (map snd p' ++ olist o) (d :: map snd p).
Proof.
  intros [|] p k d p' o H; cbn in H.
  - eapply dset_perm; eauto.
  - inversion H; subst. cbn. rewrite app_nil_r, map_app. cbn.
    rewrite <- Permutation_cons_append. apply Permutation_refl.
Qed.

Lemma get_tx_perm : forall v p k d p', get_tx v p k = Some (d, p') ->
  Permutation (d :: map snd p') (map snd p).
Proof.
  intros [|] p k d p' H; cbn in H.
  - eapply dpop_perm; eauto.
  - destruct p as [|[k' d'] r]; [discriminate|]. inversion H; subst. apply Permutation_refl.
Qed.

Lemma dset_in : forall p k d p' o x, dset p k d = (p', o) -> In x p' -> x = (k, d) \/ In x p.
Proof.
  induction p as [|[k' d'] r IH]; intros k d p' o x H Hin; cbn in H.
  - inversion H; subst. destruct Hin as [<-|[]]; auto.
  - destruct (N.eqb k' k).
    + inversion H; subst. destruct Hin as [<-|Hin]; auto. right; right; auto.
    + destruct (dset r k d) as [r' o'] eqn:E. inversion H; subst. destruct Hin as [<-|Hin].
      * right; left; auto.
      * destruct (IH _ _ _ _ _ E Hin); auto. right; right; auto.
Qed.

Lemma add_tx_in : forall v p k d p' o x, add_tx v p k d = (p', o) -> In x p' -> x = (k, d) \/ In x p.
Proof.
  intros [|] p k d p' o x H Hin; cbn in H.
  - eapply dset_in; eauto.
  - inversion H; subst. apply in_app_or in Hin. destruct Hin as [|[<-|[]]]; auto.
Qed.

Lemma dpop_in : forall p k d p', dpop p k = Some (d, p') -> In (k, d) p /\ forall x, In x p' -> In x p.
Proof.
  induction p as [|[k' d'] r IH]; intros k d p' H; cbn in H; [discriminate|].
  destruct (N.eqb k' k) eqn:Ek.
  - apply N.eqb_eq in Ek. inversion H; subst. split; [left; auto|intros; right; auto].
  - destruct (dpop r k) as [[x r']|] eqn:E; [|discriminate]. inversion H; subst.
    destruct (IH _ _ _ E) as [H1 H2]. split; [right; auto|].
    intros y [<-|Hy]; [left; auto|right; auto].
Qed.

Lemma get_tx_sub : forall v p k d p', get_tx v p k = Some (d, p') ->
  (exists k', In (k', d) p) /\ forall x, In x p' -> In x p.
Proof.
  intros [|] p k d p' H; cbn in H.
  - destruct (dpop_in _ _ _ _ H) as [H1 H2]. split; eauto.
  - destruct p as [|[k' d'] r]; [discriminate|]. inversion H; subst.
    split; [exists k'; left; auto|intros; right; auto].
Qed.

Lemma dset_fresh : forall p k d, (forall x, In x p -> fst x <> k) -> dset p k d = (p ++ [(k, d)], None).
Proof.
  induction p as [|[k' d'] r IH]; intros k d H; cbn; auto.
  destruct (N.eqb k' k) eqn:Ek.
  - apply N.eqb_eq in Ek. exfalso. apply (H (k', d')); [left; auto|auto].
  - rewrite IH; auto. intros x Hx. apply H. right; auto.
Qed.

Lemma dset_keys : forall p k d p' o, dset p k d = (p', o) -> NoDup (map fst p) -> NoDup (map fst p').
Proof.
  induction p as [|[k' d'] r IH]; intros k d p' o H Hn; cbn in H.
  - inversion H; subst. cbn. constructor; [intros []|constructor].
  - destruct (N.eqb k' k) eqn:Ek.
    + apply N.eqb_eq in Ek. inversion H; subst. exact Hn.
    + destruct (dset r k d) as [r' o'] eqn:E. inversion H; subst. cbn in *.
      inversion Hn as [|? ? Hnot Hr]; subst. constructor; [|eapply IH; eauto].
      intro Hin. apply in_map_iff in Hin. destruct Hin as ([k2 d2] & Hk & Hin). cbn in Hk. subst k2.
      destruct (dset_in _ _ _ _ _ _ E Hin) as [Heq|Hold].
      * inversion Heq; subst. apply N.eqb_neq in Ek. congruence.
      * apply Hnot. apply in_map_iff. exists (k', d2). auto.
Qed.

Lemma dpop_keys : forall p k d p', dpop p k = Some (d, p') -> NoDup (map fst p) ->
  NoDup (map fst p') /\ ~ In k (map fst p').
Proof.
  induction p as [|[k' d'] r IH]; intros k d p' H Hn; cbn in H; [discriminate|].
  cbn in Hn. inversion Hn as [|? ? Hnot Hr]; subst.
  destruct (N.eqb k' k) eqn:Ek.
  - apply N.eqb_eq in Ek. inversion H; subst. auto.
  - destruct (dpop r k) as [[x r']|] eqn:E; [|discriminate]. inversion H; subst.
    destruct (IH _ _ _ E Hr) as [H1 H2]. destruct (dpop_in _ _ _ _ E) as [_ Hsub]. cbn. split.
    + constructor; auto. intro Hin. apply in_map_iff in Hin. destruct Hin as ([k2 d2] & Hk & Hin).
      cbn in Hk; subst k2. apply Hnot. apply in_map_iff. exists (k', d2). split; auto.
    + intros [Heq|Hin]; [apply N.eqb_neq in Ek; congruence|auto].
Qed.

Lemma dpop_none : forall p k, ~ In k (map fst p) -> dpop p k = None.
Proof.
  induction p as [|[k' d'] r IH]; intros k H; cbn; auto.
  destruct (N.eqb k' k) eqn:Ek.
  - apply N.eqb_eq in Ek. exfalso. apply H. left; auto.
  - rewrite IH; auto. intro Hin. apply H. right; auto.
Qed.

(* ---- arithmetic of the counter ---------------------------------------------------------------- *)

Lemma land_ffff : forall x, N.land x 65535 = x mod 65536.
Proof. intro x. change 65535 with (N.ones 16). rewrite N.land_ones. reflexivity. Qed.

Lemma mod_succ : forall i a, ((i + a) mod 65536 + 1) mod 65536 = (i + (a + 1)) mod 65536.
Proof.
  intros i a. rewrite N.add_mod_idemp_l by discriminate. f_equal. lia.
Qed.

Lemma tid_distinct : forall i d1 d2, d1 <> d2 -> d1 < d2 + 65536 -> d2 < d1 + 65536 ->
  (i + d1) mod 65536 <> (i + d2) mod 65536.
Proof.
  intros i d1 d2 Hne H1 H2 Heq.
  pose proof (N.div_mod (i + d1) 65536 ltac:(discriminate)) as E1.
  pose proof (N.div_mod (i + d2) 65536 ltac:(discriminate)) as E2.
  pose proof (N.mod_lt (i + d1) 65536 ltac:(discriminate)).
  pose proof (N.mod_lt (i + d2) 65536 ltac:(discriminate)).
  rewrite Heq in E1. nia.
Qed.

Section WithGood.
Variable C : async_code.
Hypothesis HC : good_code C.

Lemma next_tid_eq : forall x, next_tid C x = (x + 1) mod 65536.
Proof.
  intro x. unfold next_tid. destruct HC as (Hi & Hm & _). rewrite Hi, Hm. apply land_ffff.
Qed.

Lemma iter_tid : forall n i a, N.iter n (next_tid C) ((i + a) mod 65536) = (i + (a + n)) mod 65536.
Proof.
  intros n i a. induction n as [|n IH] using N.peano_ind.
  - cbn. f_equal. lia.
  - rewrite N.iter_succ, IH, next_tid_eq, mod_succ. f_equal. lia.
Qed.

(* ---- the main invariant ------------------------------------------------------------------------- *)

Definition Lst (σ : astate) : list N := a_lost σ ++ map snd (a_pending σ) ++ map fst (a_fired σ).

Record ainv (σ : astate) : Prop := {
  i_perm : Permutation (Lst σ) (issued σ);
  i_nodup : NoDup (issued σ);
  i_range : forall d t, In (d, t) (a_sent σ) ->
            1 <= d <= a_alloc σ /\ t = (ac_tid_init C + d) mod 65536;
  i_tid : a_tid σ = (ac_tid_init C + a_alloc σ) mod 65536;
  i_pend : forall k d, In (k, d) (a_pending σ) -> In (d, k) (a_sent σ) }.

Lemma ainv_init : ainv (init_state C).
Proof.
  destruct HC as (_ & _ & Hlt & _).
  constructor; cbn.
  - constructor.
  - constructor.
  - intros d t [].
  - rewrite N.add_0_r. symmetry. apply N.mod_small. exact Hlt.
  - intros k d [].
Qed.

Lemma issued_fresh : forall σ, ainv σ -> ~ In (a_alloc σ + 1) (issued σ).
Proof.
  intros σ I Hin. unfold issued in Hin. apply in_map_iff in Hin. destruct Hin as ([d t] & Hd & Hin).
  cbn in Hd. subst d. destruct (i_range σ I _ _ Hin). lia.
Qed.

Definition M (pf : list (N * N) * list (N * outcome)) : list N := map snd (fst pf) ++ map fst (snd pf).

Lemma handle_perm : forall v pf tid rid, Permutation (M (handle C v pf tid rid)) (M pf).
Proof.
  intros v [p f] tid rid. unfold handle.
  destruct (get_tx v p (if ac_handle_by_reply_tid C then tid else 0)) as [[d p']|] eqn:E; [|apply Permutation_refl].
  unfold M. cbn. rewrite map_app. cbn. rewrite <- (get_tx_perm _ _ _ _ _ E).
  rewrite app_assoc. rewrite <- Permutation_cons_append. cbn. apply Permutation_refl.
Qed.

Lemma handle_sub : forall v pf tid rid x, In x (fst (handle C v pf tid rid)) -> In x (fst pf).
Proof.
  intros v [p f] tid rid x. unfold handle.
  destruct (get_tx v p (if ac_handle_by_reply_tid C then tid else 0)) as [[d p']|] eqn:E; cbn; auto.
  destruct (get_tx_sub _ _ _ _ _ E) as [_ Hs]. auto.
Qed.

Lemma seg_loop_perm : forall v u0 frames pf, Permutation (M (seg_loop C v u0 frames pf)) (M pf).
Proof.
  induction frames as [|[[u tid] rid] r IH]; intros pf; cbn; [apply Permutation_refl|].
  destruct (unit_ok u0 u); [|apply Permutation_refl].
  rewrite IH. apply handle_perm.
Qed.

Lemma seg_loop_sub : forall v u0 frames pf x, In x (fst (seg_loop C v u0 frames pf)) -> In x (fst pf).
Proof.
  induction frames as [|[[u tid] rid] r IH]; intros pf x; cbn; auto.
  destruct (unit_ok u0 u); auto. intro H. apply IH in H. eapply handle_sub; eauto.
Qed.

Lemma lost_loop_perm : forall v keys pf, Permutation (M (lost_loop C v keys pf)) (M pf).
Proof.
  induction keys as [|k r IH]; intros [p f]; cbn; [apply Permutation_refl|].
  destruct (get_tx v p k) as [[d p']|] eqn:E; [|apply Permutation_refl].
  rewrite IH. unfold M. cbn. rewrite map_app. cbn. rewrite <- (get_tx_perm _ _ _ _ _ E).
  rewrite app_assoc. rewrite <- Permutation_cons_append. cbn. apply Permutation_refl.
Qed.

Lemma lost_loop_sub : forall v keys pf x, In x (fst (lost_loop C v keys pf)) -> In x (fst pf).
Proof.
  induction keys as [|k r IH]; intros [p f] x; cbn; auto.
  destruct (get_tx v p k) as [[d p']|] eqn:E; cbn; auto.
  intro H. apply IH in H. cbn in H. destruct (get_tx_sub _ _ _ _ _ E) as [_ Hs]. auto.
Qed.

(* for tid in list(self.transaction): every entry is popped and errbacked, in order *)
Lemma lost_loop_all : forall v p f,
  lost_loop C v (map fst p) (p, f) = ([], f ++ map (fun x => (snd x, OErr (ac_lost_exn C))) p).
Proof.
  intros v p. induction p as [|[k d] r IH]; intros f; cbn.
  - rewrite app_nil_r. reflexivity.
  - assert (E : get_tx v ((k, d) :: r) k = Some (d, r)).
    { destruct v; cbn; [rewrite N.eqb_refl|]; reflexivity. }
    rewrite E. rewrite IH. rewrite <- app_assoc. reflexivity.
Qed.

Lemma ainv_step : forall v σ o, ainv σ -> ainv (astep C v σ o).
Proof.
  intros v σ o I. pose proof (issued_fresh σ I) as Hfresh.
  destruct o as [|frames| | |n]; cbn [astep].
  - (* Execute *)
    unfold do_execute. rewrite next_tid_eq, (i_tid σ I), mod_succ.
    set (d := a_alloc σ + 1). set (t := (ac_tid_init C + d) mod 65536).
    assert (Hr : forall d0 t0, In (d0, t0) (a_sent σ ++ [(d, t)]) ->
                 1 <= d0 <= d /\ t0 = (ac_tid_init C + d0) mod 65536).
    { intros d0 t0 Hin. apply in_app_or in Hin. destruct Hin as [Hin|[Heq|[]]].
      - destruct (i_range σ I _ _ Hin). unfold d. split; auto; lia.
      - inversion Heq; subst. unfold d. split; auto; lia. }
    assert (Hn : NoDup (issued σ ++ [d])).
    { apply NoDup_snoc; [apply (i_nodup σ I)|exact Hfresh]. }
    destruct (ac_build_guard C && negb (a_conn σ)).
    + constructor; cbn; auto.
      * unfold Lst, issued. cbn. rewrite !map_app. cbn. rewrite !app_assoc.
        apply Permutation_app_tail. rewrite <- !app_assoc. exact (i_perm σ I).
      * unfold issued. cbn. rewrite map_app. exact Hn.
      * intros k d0 Hin. apply in_or_app. left. apply (i_pend σ I); auto.
    + destruct (add_tx v (a_pending σ) t d) as [p' o] eqn:Ea. constructor; cbn; auto.
      * unfold Lst, issued. cbn. rewrite map_app. cbn.
        replace (match o with Some x => a_lost σ ++ [x] | None => a_lost σ end) with (a_lost σ ++ olist o)
          by (destruct o; cbn; auto using app_nil_r).
        apply perm_exec with (p := map snd (a_pending σ)).
        -- eapply add_tx_perm; eauto.
        -- exact (i_perm σ I).
      * unfold issued. cbn. rewrite map_app. exact Hn.
      * intros k d0 Hin. apply in_or_app. destruct (add_tx_in _ _ _ _ _ _ _ Ea Hin) as [Heq|Hold].
        -- inversion Heq; subst. right. left. reflexivity.
        -- left. apply (i_pend σ I); auto.
  - (* Segment *)
    unfold do_segment.
    set (u0 := match frames with (u, _, _) :: _ => u | [] => ac_unit_default C end).
    pose proof (seg_loop_perm v u0 frames (a_pending σ, a_fired σ)) as Hp.
    pose proof (seg_loop_sub v u0 frames (a_pending σ, a_fired σ)) as Hs.
    destruct (seg_loop C v u0 frames (a_pending σ, a_fired σ)) as [p' f'].
    constructor; cbn; auto using (i_nodup σ I), (i_range σ I), (i_tid σ I).
    + unfold Lst, issued. cbn. rewrite <- (i_perm σ I). unfold Lst.
      apply Permutation_app_head. exact Hp.
    + intros k d Hin. apply (i_pend σ I). apply (Hs (k, d)). exact Hin.
  - (* Lost *)
    unfold do_lost.
    assert (Hp : Permutation (M (if ac_lost_loop C then lost_loop C v (map fst (a_pending σ)) (a_pending σ, a_fired σ)
                                 else (a_pending σ, a_fired σ))) (M (a_pending σ, a_fired σ))).
    { destruct (ac_lost_loop C); [apply lost_loop_perm|apply Permutation_refl]. }
    assert (Hs : forall x, In x (fst (if ac_lost_loop C then lost_loop C v (map fst (a_pending σ)) (a_pending σ, a_fired σ)
                                 else (a_pending σ, a_fired σ))) -> In x (a_pending σ)).
    { destruct (ac_lost_loop C); [apply lost_loop_sub|auto]. }
    destruct (if ac_lost_loop C then lost_loop C v (map fst (a_pending σ)) (a_pending σ, a_fired σ)
              else (a_pending σ, a_fired σ)) as [p' f'].
    constructor; cbn; auto using (i_nodup σ I), (i_range σ I), (i_tid σ I).
    + unfold Lst, issued. cbn. rewrite <- (i_perm σ I). unfold Lst.
      apply Permutation_app_head. exact Hp.
    + intros k d Hin. apply (i_pend σ I). apply (Hs (k, d)). exact Hin.
  - (* Made *)
    unfold do_made. constructor; cbn; auto using (i_perm σ I), (i_nodup σ I), (i_range σ I), (i_tid σ I), (i_pend σ I).
  - (* Skip *)
    unfold do_skip. constructor; cbn; auto using (i_perm σ I), (i_nodup σ I), (i_pend σ I).
    + intros d t Hin. destruct (i_range σ I _ _ Hin). split; auto; lia.
    + rewrite (i_tid σ I). apply iter_tid.
Qed.

Lemma ainv_run : forall v ops σ, ainv σ -> ainv (arun C v ops σ).
Proof.
  induction ops as [|o r IH]; intros σ I; cbn; auto. apply IH. apply ainv_step; auto.
Qed.

(* ---- consequences ------------------------------------------------------------------------------ *)

Definition areach (v : variant) (σ : astate) : Prop := exists ops, σ = arun C v ops (init_state C).

Lemma ainv_reach : forall v σ, areach v σ -> ainv σ.
Proof. intros v σ [ops ->]. apply ainv_run. apply ainv_init. Qed.

(* every deferred ever returned is in exactly one place, once: displaced, pending, or fired *)
Theorem partition_all_histories : forall v ops,
  let σ := arun C v ops (init_state C) in
  Permutation (a_lost σ ++ pending_dids σ ++ fired_dids σ) (issued σ) /\ NoDup (issued σ).
Proof.
  intros v ops σ. pose proof (ainv_run v ops _ ainv_init) as I. split; [apply (i_perm _ I)|apply (i_nodup _ I)].
Qed.

Lemma NoDup_app_r : forall (A : Type) (l1 l2 : list A), NoDup (l1 ++ l2) -> NoDup l2.
Proof. induction l1; cbn; intros l2 H; auto. inversion H; auto. Qed.

Theorem once_all_histories : forall v ops, NoDup (fired_dids (arun C v ops (init_state C))).
Proof.
  intros v ops. destruct (partition_all_histories v ops) as [Hp Hn].
  apply (Permutation_NoDup (Permutation_sym Hp)) in Hn.
  apply NoDup_app_r in Hn. apply NoDup_app_r in Hn. exact Hn.
Qed.

(* a deferred that fired is neither pending nor displaced, and was issued *)
Theorem fired_was_issued : forall v ops d,
  let σ := arun C v ops (init_state C) in
  In d (fired_dids σ) -> In d (issued σ) /\ ~ In d (pending_dids σ) /\ ~ In d (a_lost σ).
Proof.
  intros v ops d σ Hin. destruct (partition_all_histories v ops) as [Hp Hn]. fold σ in Hp, Hn.
  assert (HL : NoDup (a_lost σ ++ pending_dids σ ++ fired_dids σ))
    by (apply (Permutation_NoDup (Permutation_sym Hp)); auto).
  split; [|split].
  - eapply Permutation_in; [exact Hp|]. apply in_or_app. right. apply in_or_app. right. auto.
  - intro Hp2. apply NoDup_app_r in HL. clear - HL Hin Hp2.
    induction (pending_dids σ) as [|x l IH]; [inversion Hp2|]. cbn in HL. inversion HL; subst.
    destruct Hp2 as [->|H']; auto. apply H1. apply in_or_app. right; auto.
  - intro Hl. clear - HL Hin Hl.
    induction (a_lost σ) as [|x l IH]; [inversion Hl|]. cbn in HL. inversion HL; subst.
    destruct Hl as [->|H']; auto. apply H1. apply in_or_app. right. apply in_or_app. right; auto.
Qed.

(* when nothing is pending and nothing was displaced, everything issued has fired exactly once *)
Theorem exactly_once_when_drained : forall v ops,
  let σ := arun C v ops (init_state C) in
  a_pending σ = [] -> a_lost σ = [] -> Permutation (fired_dids σ) (issued σ) /\ NoDup (fired_dids σ).
Proof.
  intros v ops σ Hp Hl. destruct (partition_all_histories v ops) as [Hperm Hn]. fold σ in Hperm.
  unfold pending_dids in Hperm. rewrite Hp, Hl in Hperm. cbn in Hperm. split; auto.
  apply once_all_histories.
Qed.

(* tids on the wire: the d-th allocation carries (init + d) mod 65536 *)
Theorem sent_tid_formula : forall v ops d t,
  In (d, t) (a_sent (arun C v ops (init_state C))) -> t = (ac_tid_init C + d) mod 65536 /\ t < 65536.
Proof.
  intros v ops d t Hin. pose proof (ainv_run v ops _ ainv_init) as I.
  destruct (i_range _ I _ _ Hin) as [_ ->]. split; auto. apply N.mod_lt. discriminate.
Qed.

Lemma outstanding_issued : forall σ d, ainv σ -> In d (outstanding σ) -> In d (issued σ).
Proof.
  intros σ d I Hin. eapply Permutation_in; [exact (i_perm σ I)|]. unfold Lst, outstanding, pending_dids in *.
  apply in_app_or in Hin. destruct Hin; apply in_or_app; auto. right. apply in_or_app; auto.
Qed.

Lemma issued_range : forall σ d, ainv σ -> In d (issued σ) ->
  1 <= d <= a_alloc σ /\ In (d, (ac_tid_init C + d) mod 65536) (a_sent σ).
Proof.
  intros σ d I Hin. unfold issued in Hin. apply in_map_iff in Hin. destruct Hin as ([d' t] & Hd & Hin).
  cbn in Hd; subst d'. destruct (i_range σ I _ _ Hin) as [Hr ->]. auto.
Qed.

(* outstanding requests carry pairwise distinct tids while fewer than 65536 tids have been handed
   out since the oldest of them *)
Theorem distinct_in_window : forall v ops d1 d2 t1 t2,
  let σ := arun C v ops (init_state C) in
  (forall d, In d (outstanding σ) -> a_alloc σ - d < 65536) ->
  In d1 (outstanding σ) -> In d2 (outstanding σ) -> d1 <> d2 ->
  In (d1, t1) (a_sent σ) -> In (d2, t2) (a_sent σ) -> t1 <> t2.
Proof.
  intros v ops d1 d2 t1 t2 σ Hw H1 H2 Hne S1 S2.
  pose proof (ainv_run v ops _ ainv_init) as I. fold σ in I.
  destruct (i_range σ I _ _ S1) as [R1 ->]. destruct (i_range σ I _ _ S2) as [R2 ->].
  pose proof (Hw _ H1). pose proof (Hw _ H2).
  apply tid_distinct; auto; lia.
Qed.

(* under the window hypothesis checked along the history no table slot is ever overwritten *)
Lemma execute_safe_no_overwrite : forall v σ, ainv σ -> exec_safe σ = true ->
  a_lost (do_execute C v σ) = a_lost σ.
Proof.
  intros v σ I Hs. unfold do_execute. destruct (ac_build_guard C && negb (a_conn σ)); [reflexivity|].
  destruct v; cbn [add_tx].
  - rewrite dset_fresh; [reflexivity|].
    intros [k d] Hin. cbn. rewrite next_tid_eq, (i_tid σ I), mod_succ.
    pose proof (i_pend σ I _ _ Hin) as Hsent. destruct (i_range σ I _ _ Hsent) as [Hr ->].
    unfold exec_safe in Hs. rewrite forallb_forall in Hs. pose proof (Hs _ Hin) as Hw. cbn in Hw.
    apply N.ltb_lt in Hw. apply tid_distinct; lia.
  - reflexivity.
Qed.

Theorem no_overwrite_in_window : forall v ops σ, ainv σ -> safe_run C v ops σ = true ->
  a_lost (arun C v ops σ) = a_lost σ.
Proof.
  induction ops as [|o r IH]; intros σ I Hs; [reflexivity|].
  change (arun C v (o :: r) σ) with (arun C v r (astep C v σ o)).
  cbn [safe_run] in Hs.
  apply andb_prop in Hs. destruct Hs as [Ho Hr]. rewrite IH; auto using ainv_step.
  destruct o; cbn; auto.
  - apply execute_safe_no_overwrite; auto.
  - unfold do_segment. destruct (seg_loop C v _ frames _); reflexivity.
  - unfold do_lost. destruct (if ac_lost_loop C then _ else _); reflexivity.
Qed.

Theorem no_overwrite_from_init : forall v ops, safe_run C v ops (init_state C) = true ->
  a_lost (arun C v ops (init_state C)) = [].
Proof. intros v ops H. rewrite no_overwrite_in_window; auto using ainv_init. Qed.

(* ---- connection loss ---------------------------------------------------------------------------- *)

Theorem lost_errbacks_all : forall v σ,
  let σ' := astep C v σ Lost in
  a_pending σ' = [] /\ a_conn σ' = false /\
  a_fired σ' = a_fired σ ++ map (fun x => (snd x, OErr ConnectionExc)) (a_pending σ).
Proof.
  intros v σ. cbn. unfold do_lost. destruct HC as (_ & _ & _ & _ & _ & _ & _ & _ & Hcl & Hlp & Hex).
  rewrite Hlp, Hcl. rewrite lost_loop_all. rewrite Hex. cbn. auto.
Qed.

Theorem execute_when_disconnected : forall v σ, a_conn σ = false ->
  let σ' := astep C v σ Execute in
  a_pending σ' = a_pending σ /\ a_conn σ' = false /\
  a_fired σ' = a_fired σ ++ [(a_alloc σ + 1, OErr ConnectionExc)].
Proof.
  intros v σ Hc. cbn. unfold do_execute. destruct HC as (_ & _ & _ & _ & _ & Hg & Hex & _).
  rewrite Hg, Hc. cbn. rewrite Hex. auto.
Qed.

(* disconnected stays disconnected until connectionMade *)
Fixpoint no_made (ops : list aop) : bool :=
  match ops with [] => true | Made :: _ => false | _ :: r => no_made r end.

Lemma disconnected_stays : forall v ops σ, a_conn σ = false -> no_made ops = true ->
  a_conn (arun C v ops σ) = false.
Proof.
  induction ops as [|o r IH]; intros σ Hc Hn; cbn in *; auto.
  destruct o; try discriminate; apply IH; auto; cbn.
  - unfold do_execute. destruct (ac_build_guard C && negb (a_conn σ)); [exact Hc|].
    destruct (add_tx v (a_pending σ) _ _); exact Hc.
  - unfold do_segment. destruct (seg_loop C v _ frames _); exact Hc.
  - unfold do_lost. destruct (if ac_lost_loop C then _ else _). cbn. destruct (ac_lost_clears C); auto.
Qed.

(* ---- dictionary variant: keys, right reply, unsolicited / duplicate replies ------------------------ *)

Record dinv (σ : astate) : Prop := {
  d_keys : NoDup (map fst (a_pending σ));
  d_cb : forall d tid rid, In (d, OCb tid rid) (a_fired σ) -> In (d, tid) (a_sent σ);
  d_pend : forall k d, In (k, d) (a_pending σ) -> In (d, k) (a_sent σ) }.

Lemma handle_dict : forall p f tid rid p' f',
  handle C VDict (p, f) tid rid = (p', f') -> NoDup (map fst p) ->
  NoDup (map fst p') /\ (forall x, In x p' -> In x p) /\
  (forall y, In y f' -> In y f \/ exists d, y = (d, OCb tid rid) /\ In (tid, d) p).
Proof.
  intros p f tid rid p' f' H Hn. unfold handle in H.
  destruct HC as (_ & _ & _ & _ & _ & _ & _ & Hk & _). rewrite Hk in H. cbn [get_tx] in H.
  destruct (dpop p tid) as [[d p2]|] eqn:E; inversion H; subst.
  - destruct (dpop_keys _ _ _ _ E Hn) as [H1 _]. destruct (dpop_in _ _ _ _ E) as [H2 H3].
    split; auto. split; auto. intros y Hy. apply in_app_or in Hy. destruct Hy as [|[<-|[]]]; eauto.
  - split; auto.
Qed.

Lemma seg_loop_dict : forall u0 frames p f p' f',
  seg_loop C VDict u0 frames (p, f) = (p', f') -> NoDup (map fst p) ->
  NoDup (map fst p') /\ (forall x, In x p' -> In x p) /\
  (forall y, In y f' -> In y f \/ exists d tid rid, y = (d, OCb tid rid) /\ In (tid, d) p).
Proof.
  induction frames as [|[[u tid] rid] r IH]; intros p f p' f' H Hn; cbn [seg_loop] in H.
  - inversion H; subst. auto.
  - destruct (unit_ok u0 u); [|inversion H; subst; auto].
    destruct (handle C VDict (p, f) tid rid) as [p1 f1] eqn:Eh.
    destruct (handle_dict _ _ _ _ _ _ Eh Hn) as (N1 & S1 & F1).
    destruct (IH _ _ _ _ H N1) as (N2 & S2 & F2). split; auto. split; auto.
    intros y Hy. destruct (F2 y Hy) as [Hy1|(d & t & q & -> & Hin)].
    + destruct (F1 y Hy1) as [|(d & -> & Hin)]; eauto 6.
    + right. exists d, t, q. auto.
Qed.


Lemma dinv_step : forall σ o, dinv σ -> dinv (astep C VDict σ o).
Proof.
  intros σ o D. destruct o as [|frames| | |n]; cbn [astep].
  - unfold do_execute. destruct (ac_build_guard C && negb (a_conn σ)).
    + constructor; cbn.
      * apply (d_keys σ D).
      * intros d tid rid Hin. apply in_app_or in Hin. apply in_or_app. destruct Hin as [Hin|[Heq|[]]].
        -- left. eapply (d_cb σ D); eauto.
        -- inversion Heq.
      * intros k d Hin. apply in_or_app. left. apply (d_pend σ D); auto.
    + cbn [add_tx]. destruct (dset (a_pending σ) _ _) as [p' o] eqn:Ea. constructor; cbn.
      * eapply dset_keys; eauto. apply (d_keys σ D).
      * intros d tid rid Hin. apply in_or_app. left. eapply (d_cb σ D); eauto.
      * intros k d Hin. apply in_or_app. destruct (dset_in _ _ _ _ _ _ Ea Hin) as [Heq|Hold].
        -- inversion Heq; subst. right; left; reflexivity.
        -- left. apply (d_pend σ D); auto.
  - unfold do_segment.
    destruct (seg_loop C VDict _ frames (a_pending σ, a_fired σ)) as [p' f'] eqn:Es.
    destruct (seg_loop_dict _ _ _ _ _ _ Es (d_keys σ D)) as (N1 & S1 & F1).
    constructor; cbn; auto.
    + intros d tid rid Hin. destruct (F1 _ Hin) as [Hold|(d' & t' & r' & Heq & Hp)].
      * eapply (d_cb σ D); eauto.
      * inversion Heq; subst. apply (d_pend σ D); auto.
    + intros k d Hin. apply (d_pend σ D). auto.
  - unfold do_lost. destruct HC as (_ & _ & _ & _ & _ & _ & _ & _ & _ & Hlp & _). rewrite Hlp.
    rewrite lost_loop_all. constructor; cbn.
    + constructor.
    + intros d tid rid Hin. apply in_app_or in Hin. destruct Hin as [Hin|Hin].
      * eapply (d_cb σ D); eauto.
      * apply in_map_iff in Hin. destruct Hin as (x & Hx & _). inversion Hx.
    + intros k d [].
  - unfold do_made. constructor; cbn; [apply (d_keys σ D)|apply (d_cb σ D)|apply (d_pend σ D)].
  - unfold do_skip. constructor; cbn; [apply (d_keys σ D)|apply (d_cb σ D)|apply (d_pend σ D)].
Qed.

Lemma dinv_init : dinv (init_state C).
Proof. constructor; cbn; [constructor|intros ? ? ? []|intros ? ? []]. Qed.

Lemma dinv_run : forall ops σ, dinv σ -> dinv (arun C VDict ops σ).
Proof. induction ops as [|o r IH]; intros σ D; cbn; auto. apply IH. apply dinv_step; auto. Qed.

(* a callback carries the reply whose transaction id was written for that very deferred *)
Theorem right_reply_all_histories : forall ops d tid rid,
  let σ := arun C VDict ops (init_state C) in
  In (d, OCb tid rid) (a_fired σ) -> In (d, tid) (a_sent σ).
Proof. intros ops d tid rid σ. apply (d_cb _ (dinv_run ops _ dinv_init)). Qed.

Lemma reply_unknown_noop : forall σ u tid rid,
  dpop (a_pending σ) tid = None -> astep C VDict σ (Segment [(u, tid, rid)]) = σ.
Proof.
  intros σ u tid rid Hn. cbn. unfold do_segment. cbn.
  destruct HC as (_ & _ & _ & _ & _ & _ & _ & Hk & _).
  unfold unit_ok. rewrite N.eqb_refl, orb_true_r. unfold handle. rewrite Hk. cbn [get_tx]. rewrite Hn.
  destruct σ; reflexivity.
Qed.

(* a reply whose tid is not in the table changes nothing *)
Theorem unsolicited_dropped : forall ops u tid rid,
  let σ := arun C VDict ops (init_state C) in
  ~ In tid (map fst (a_pending σ)) -> astep C VDict σ (Segment [(u, tid, rid)]) = σ.
Proof. intros ops u tid rid σ Hn. apply reply_unknown_noop. apply dpop_none; auto. Qed.

(* a second copy of a reply changes nothing *)
Theorem duplicate_dropped : forall ops u tid rid u' rid',
  let σ := arun C VDict ops (init_state C) in
  let σ1 := astep C VDict σ (Segment [(u, tid, rid)]) in
  astep C VDict σ1 (Segment [(u', tid, rid')]) = σ1.
Proof.
  intros ops u tid rid u' rid' σ σ1. apply reply_unknown_noop.
  pose proof (dinv_run ops _ dinv_init) as D. fold σ in D.
  unfold σ1. cbn. unfold do_segment. cbn.
  destruct HC as (_ & _ & _ & _ & _ & _ & _ & Hk & _).
  unfold unit_ok. rewrite N.eqb_refl, orb_true_r. unfold handle. rewrite Hk. cbn [get_tx].
  destruct (dpop (a_pending σ) tid) as [[d p']|] eqn:E; cbn; auto.
  destruct (dpop_keys _ _ _ _ E (d_keys σ D)) as [_ Hnot]. apply dpop_none; auto.
Qed.

(* a reply for a pending tid fires exactly that deferred, with that reply, and nothing else *)
Theorem solicited_delivered : forall σ u tid rid d p',
  dpop (a_pending σ) tid = Some (d, p') ->
  let σ' := astep C VDict σ (Segment [(u, tid, rid)]) in
  a_fired σ' = a_fired σ ++ [(d, OCb tid rid)] /\ a_pending σ' = p'.
Proof.
  intros σ u tid rid d p' E. cbn. unfold do_segment. cbn.
  destruct HC as (_ & _ & _ & _ & _ & _ & _ & Hk & _).
  unfold unit_ok. rewrite N.eqb_refl, orb_true_r. unfold handle. rewrite Hk. cbn [get_tx]. rewrite E.
  cbn. auto.
Qed.

End WithGood.
