(* Props/C07_rtubin.v — C07, RTU / binary half: corrupted frames are never delivered.
   ONLY statements. *)
From PM.theories Require Import Base Expr Struct FrBCode Crc FrBCommon FrRtu FrBin FrSpecB.
From PM.Generated Require Import GenFramerB.
From PM.proofs Require Import Crc_proofs FrB_rtu_proofs.
Open Scope list_scope.
Open Scope N_scope.

(* checkCRC accepts exactly the byte-swapped bitwise CRC-16/Modbus: the gate of both framers
   compares against the independent (spec) checksum, for every byte string *)
Theorem C07_check_is_bitwise_crc : forall bs k, wfb bs = true ->
  py_check_crc bs k = Ok (Z.of_N (swap16 (crc16_bitwise bs)) =? k)%Z.
Proof. exact py_check_crc_spec. Qed.
Print Assumptions C07_check_is_bitwise_crc.

(* GATE, RTU: for EVERY receiver state (any buffer, any header content), every chunk and both
   decoder tables: each message handed to the callback is justified by a prefix of the
   buffered bytes that is exactly the specified ADU of that message (unit, PDU, bitwise
   CRC-16 low byte first) — what the reference receiver accepts.  Hence no corruption,
   truncation or extension of a frame is delivered unless the corrupted bytes themselves
   contain a frame with a matching CRC. *)
Theorem C07_gate_rtu : forall cfg st chunk st' ds x,
  known_rules (cf_rules cfg) -> wfb (r_buf st ++ chunk) = true ->
  rtu_recv cfg st chunk = (st', ds, x) ->
  forall pdu uid, In (pdu, uid) ds ->
    exists u rest, r_buf st ++ chunk = spec_adu_rtu u pdu ++ rest /\ uid = Z.of_N u /\
                   crc_ok (spec_adu_rtu u pdu) = true /\ spec_rx_rtu (spec_adu_rtu u pdu) = Some (pdu, u).
Proof. exact rtu_gate. Qed.
Print Assumptions C07_gate_rtu.

(* the gate is not vacuous: a valid frame IS delivered (C03_whole_frame_rtu) *)
Example C07_nonvacuous :
  let cfg := {| cf_dec := fun _ => DMsg; cf_rules := server_decoder; cf_units := [1%Z]; cf_single := false |} in
  snd (fst (rtu_recv cfg rtu_init (spec_adu_rtu 1 [3; 0; 1; 0; 2]))) = [([3; 0; 1; 0; 2], 1%Z)] /\ known_rules (cf_rules cfg).
Proof. split; [vm_compute; reflexivity | left; reflexivity]. Qed.
