(* EndToEndExt.v — the composed server model EXTENDED by the request classes that do not touch the
   datastore (FC 7, 8 and its sub-functions, 11, 12, 17, 20, 21, 24): ExecOther.serve_other over the
   control block record of Device.v.  The server state becomes (hosted datastores, control block); the
   control block is the process-wide ModbusControlBlock singleton, shared by all units.

   One delivered request: the decoded object goes to [serve_other]; [None] = not one of these classes:
   the data-access path of EndToEnd.handle_one, unchanged.  Otherwise the front-end skeleton
   (Server.respond: broadcast test, unit lookup, ladder, id copy, should_respond gate) runs with an effect
   that leaves the datastore alone; the control block is stepped once per execution of request.execute
   (once for an addressed hosted unit, once per hosted unit for a broadcast, never for an absent unit);
   the response object of the (only) answered execution is encoded and framed as before.
   ForceListenOnlyModeResponse.should_respond is False.  No proofs. *)
From PM.theories Require Import Base Expr Struct FrBaseA FrTcp Lrc FrAscii PduCls Pdu Store Exec Device ExecOther Server EndToEnd EndToEndSerial.
From PM.Generated Require Import GenFramerA GenPdu.
From PM.Generated Require GenStore GenExec GenExecOther GenServer.
Open Scope string_scope.
Open Scope list_scope.
Open Scope Z_scope.

Record xstate := { x_units : units slavectx; x_dev : device }.

Definition e_serve_other (dv : device) (o : obj) : option (device * obj) :=
  serve_other GenExec.code GenExecOther.code dv o.

(* message.should_respond *)
Definition obj_respond (ro : obj) : bool :=
  match ro with ODiag ForceListenOnlyModeResponse _ _ => false | _ => true end.

Definition other_summary (ro : obj) (fc : Z) : Server.rsp :=
  {| rs_fc := fc; rs_respond := obj_respond ro;
     rs_code := match ro with OExc _ _ code => Some code | _ => None end |}.

(* how often request.execute runs for a request to [uid] *)
Definition exec_count (sk : skel) (cfg : scfg) (l : units slavectx) (uid : Z) : nat :=
  if (match sk_bcast sk with Some _ => true | None => false end) && cf_bcast cfg && (uid =? 0) then length l
  else match u_get slavectx l (ctx_key GenServer.code cfg uid) with Some _ => 1%nat | None => O end.

Fixpoint iter_other (n : nat) (dv : device) (o : obj) : option device :=
  match n with
  | O => Some dv
  | S k => match e_serve_other dv o with Some (dv', _) => iter_other k dv' o | None => None end
  end.

Fixpoint packets_other (pk : packer) (ro : obj) (os : list out) : res bytes :=
  match os with
  | [] => Ok []
  | o :: t =>
      let r := match o_code o with Some code => OExc (o_fc o - 128) (o_fc o) code | None => ro end in
      do p <- pk o r;
      do q <- packets_other pk ro t;
      Ok (p ++ q)
  end.

Definition handle_one_x (pk : packer) (sk : skel) (cfg : scfg) (x : xstate) (d : delivery) : res (xstate * bytes) :=
  do o <- py_decode true (d_pdu d);
  match e_serve_other (x_dev x) o with
  | None =>                                        (* data access / unassigned function: EndToEnd.v *)
      do r <- handle_one pk sk cfg (x_units x) d;
      Ok ({| x_units := fst r; x_dev := x_dev x |}, snd r)
  | Some (_, ro) =>
      do fc <- obj_fc o;
      do rfc <- obj_fc ro;
      let rq := {| rq_tid := d_tid d; rq_uid := d_uid d; rq_fc := fc; rq_dest := 0;
                   rq_exec := fun s : slavectx => (s, Ok (other_summary ro rfc)) |} in
      let '(l', outs, exn) := respond slavectx GenServer.code sk cfg (x_units x) rq in
      match exn with
      | Some e => Raise e
      | None =>
          do bs <- packets_other pk ro outs;
          match iter_other (exec_count sk cfg (x_units x) (d_uid d)) (x_dev x) o with
          | Some dv' => Ok ({| x_units := l'; x_dev := dv' |}, bs)
          | None => Raise NotImplementedExc
          end
      end
  end.

Fixpoint handle_all_x (pk : packer) (sk : skel) (cfg : scfg) (x : xstate) (ds : list delivery)
  : xstate * bytes * option pyexn :=
  match ds with
  | [] => (x, [], None)
  | d :: t =>
      match handle_one_x pk sk cfg x d with
      | Raise e => (x, [], Some e)
      | Ok (x1, b1) => let '(x2, b2, e) := handle_all_x pk sk cfg x1 t in (x2, b1 ++ b2, e)
      end
  end.

Definition x_keys (x : xstate) : list Z := u_keys slavectx (x_units x).

Definition tcp_server_run_x (sk : skel) (cfg : scfg) (eof_on_empty : bool) (x : xstate) (chunks : list bytes)
  : e2e_result xstate tstate :=
  run_reads_g x_keys (handle_all_x packet_of sk cfg) (t_recv base tcp e2e_dec) sk cfg eof_on_empty (t_init tcp) x chunks.

Definition ascii_server_run_x (sk : skel) (cfg : scfg) (x : xstate) (chunks : list bytes) : e2e_result xstate astate :=
  run_serial_g x_keys (handle_all_x packet_ascii sk cfg) (a_recv_h base lrc ascii e2e_dec) sk cfg (a_init ascii) x chunks.

Definition rtu_server_run_x (sk : skel) (cfg : scfg) (x : xstate) (chunks : list bytes) : e2e_result xstate FrRtu.rstate :=
  run_serial_g x_keys (handle_all_x packet_rtu sk cfg) rtu_recv_h sk cfg FrRtu.rtu_init x chunks.
