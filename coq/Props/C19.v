(* Props/C19.v — Payload builder and decoder agree for every byte and word order.
   ONLY statements: each theorem is closed by [exact <lemma>] (proofs/Payload_proofs.v)
   and followed by [Print Assumptions].  All of them are about [GenPayload.code], the
   record the translator regenerates from pymodbus/payload.py and constants.py on every
   run ([C19_code_is_layout] is the tie).  Value sequences have any length; integers
   range over their whole type; floats are IEEE bit patterns (every pattern of the width,
   so subnormals and infinities are included; Python float <-> bits is outside the model). *)
From PM.theories Require Import Base Struct Payload.
From PM.Generated Require Import GenPayload.
From PM.proofs Require Import Payload_proofs.
Open Scope list_scope.
Open Scope Z_scope.

(* what the translator read from the source = the layout the method names promise *)
Theorem C19_code_is_layout : code = spec_code.
Proof. exact code_is_spec. Qed.
Print Assumptions C19_code_is_layout.

(* raw transport: the builder does not raise, and a fresh decoder with the same orders
   returns exactly the values, in order, and stops at the end of the payload *)
Theorem C19_roundtrip : forall bo wo vs,
  wf_values vs = true ->
  exists s, to_string code bo wo vs = Ok s /\
            decode_seq code bo wo (types vs) s = Ok (vs, length s).
Proof. exact roundtrip_code. Qed.
Print Assumptions C19_roundtrip.

(* the same through to_registers() -> fromRegisters(): the payload comes back with one
   zero byte appended iff its length is odd, and the decoder still returns the values *)
Theorem C19_via_registers : forall bo wo vs,
  wf_values vs = true ->
  exists s regs p, to_string code bo wo vs = Ok s /\
    to_registers code bo false s = Ok regs /\
    from_registers code regs = Ok p /\
    p = s ++ (if Nat.odd (length s) then [0%N] else []) /\
    decode_seq code bo wo (types vs) p = Ok (vs, length s).
Proof. exact via_registers_code. Qed.
Print Assumptions C19_via_registers.

(* the pad byte (any trailing bytes at all) is irrelevant; bit groups of any length come
   back zero padded to whole bytes ([decoded]), everything else exactly *)
Theorem C19_trailing_bytes_irrelevant : forall bo wo vs post,
  forallb in_domain vs = true ->
  exists s, to_string code bo wo vs = Ok s /\
            decode_seq code bo wo (types vs) (s ++ post) = Ok (map decoded vs, length s).
Proof. exact roundtrip_general_code. Qed.
Print Assumptions C19_trailing_bytes_irrelevant.

(* registers are the big-endian 16-bit words of the (padded) payload, whatever the orders *)
Theorem C19_registers_carry_payload : forall bo s,
  wfb s = true ->
  exists regs, to_registers code bo false s = Ok regs /\
               regs = regs_of (s ++ (if Nat.odd (length s) then [0%N] else [])) /\
               from_registers code regs = Ok (s ++ (if Nat.odd (length s) then [0%N] else [])).
Proof. exact registers_carry_payload_code. Qed.
Print Assumptions C19_registers_carry_payload.

(* the image of every numeric value of 2k bytes is the conventional one … *)
Theorem C19_image : forall bo wo k x,
  (2 <= kind_width k)%nat -> in_kind_range k x = true ->
  add_value code bo wo (VNum k x) = Ok (image bo wo (net_bytes k x)).
Proof. exact image_code. Qed.
Print Assumptions C19_image.

(* … where, for network-order bytes B of even length: big/big is B itself, little word
   order reverses the 16-bit words, little byte order swaps the bytes inside each word *)
Theorem C19_image_convention : forall n B,
  length B = (2 * n)%nat ->
  image Big Big B = B /\
  image Big Little B = concat (rev (words16 B)) /\
  (forall wo, image Little wo B = concat (map (@rev N) (words16 (image Big wo B)))).
Proof. exact image_convention. Qed.
Print Assumptions C19_image_convention.

(* … and the registers a single value occupies are the big-endian words of that image *)
Theorem C19_register_image : forall bo wo k x,
  (2 <= kind_width k)%nat -> in_kind_range k x = true ->
  exists s, to_string code bo wo [VNum k x] = Ok s /\
            s = image bo wo (net_bytes k x) /\
            to_registers code bo false s = Ok (regs_of s).
Proof. exact register_image_code. Qed.
Print Assumptions C19_register_image.

(* two's complement: a signed value is written exactly as the unsigned value congruent
   to it modulo 2^bits … *)
Theorem C19_signed : forall bo wo k x,
  in_kind_range k x = true ->
  add_value code bo wo (VNum k x) =
  add_value code bo wo (VNum (unsigned_of k) (x mod 2 ^ (8 * Z.of_nat (kind_width k)))).
Proof. exact signed_encode_code. Qed.
Print Assumptions C19_signed.

(* … which for a negative number is 2^bits + x, the patterns with the top bit set *)
Theorem C19_signed_pattern : forall k x,
  kind_signed k = true -> in_kind_range k x = true ->
  let m := 2 ^ (8 * Z.of_nat (kind_width k)) in
  x mod m = (if x <? 0 then x + m else x) /\ (x < 0 <-> m / 2 <= x mod m).
Proof. exact signed_pattern. Qed.
Print Assumptions C19_signed_pattern.

(* decoder side: reading the same bytes with the signed decoder instead of the unsigned one
   of the same width subtracts 2^bits exactly when the top bit is set *)
Theorem C19_signed_decode : forall bo wo k payload ptr u p,
  kind_signed k = true ->
  decode1 code bo wo (TNum (unsigned_of k)) payload ptr = Ok (VNum (unsigned_of k) u, p) ->
  let m := 2 ^ (8 * Z.of_nat (kind_width k)) in
  decode1 code bo wo (TNum k) payload ptr = Ok (VNum k (if m / 2 <=? u then u - m else u), p).
Proof. exact signed_decode_code. Qed.
Print Assumptions C19_signed_decode.

(* numbers outside their type make the builder raise; nothing wraps silently *)
Theorem C19_out_of_range_raises : forall bo wo k x,
  in_kind_range k x = false -> add_value code bo wo (VNum k x) = Raise StructError.
Proof. exact out_of_range_raises_code. Qed.
Print Assumptions C19_out_of_range_raises.

(* --- builder option repack=True (non-default; outside the four order pairs the property
   quantifies over).  Full statement: the register round trip for either value of the flag. *)
Definition C19_full_statement_repack : Prop :=
  forall repack bo wo vs, wf_values vs = true -> via_registers_statement repack bo wo vs.

(* refuted: repack=True with byte order Little reads registers little-endian while
   fromRegisters writes them big-endian; U16 0x1234 comes back as 0x3412 *)
Theorem C19_repack_refuted :
  exists bo wo vs, wf_values vs = true /\ ~ via_registers_statement true bo wo vs.
Proof. exact via_registers_repack_refuted. Qed.
Print Assumptions C19_repack_refuted.

(* the strongest true statement: everything except (repack=True and byte order Little) *)
Theorem C19_repack_partial : forall repack bo wo vs,
  (repack = true -> bo = Big) -> wf_values vs = true -> via_registers_statement repack bo wo vs.
Proof. exact via_registers_repack_partial. Qed.
Print Assumptions C19_repack_partial.

(* --- coil transport (to_coils -> fromCoils), adjacent to the property: fromCoils drops its
   wordorder argument, so under word order Little multi-register values come back with
   their words swapped (model agreement with the real classes is checked on every run) *)
Theorem C19_coils_refuted :
  exists bo wo vs, wf_values vs = true /\ via_coils bo wo vs = Ok ([U32 0x33441122], 4%nat) /\ vs = [U32 0x11223344].
Proof. exact via_coils_refuted. Qed.
Print Assumptions C19_coils_refuted.

(* with word order Big (the one the decoder silently gets) the coil transport is faithful,
   for every byte order *)
Theorem C19_coils_partial : forall bo vs,
  wf_values vs = true ->
  exists s, to_string code bo Big vs = Ok s /\ via_coils bo Big vs = Ok (vs, length s).
Proof. exact via_coils_partial. Qed.
Print Assumptions C19_coils_partial.

(* non-vacuity: concrete values under all four orders, an odd-length sequence through
   registers, and a well-formed sequence of every type that satisfies the hypotheses *)
Example C19_nonvacuous :
  to_string code Big Big [U32 0x11223344] = Ok (map Z.to_N [0x11; 0x22; 0x33; 0x44]) /\
  to_string code Big Little [U32 0x11223344] = Ok (map Z.to_N [0x33; 0x44; 0x11; 0x22]) /\
  to_string code Little Big [U32 0x11223344] = Ok (map Z.to_N [0x22; 0x11; 0x44; 0x33]) /\
  to_string code Little Little [U32 0x11223344] = Ok (map Z.to_N [0x44; 0x33; 0x22; 0x11]) /\
  (do s <- to_string code Little Little [I16 (-2); U8 7]; to_registers code Little false s) = Ok [0xFEFF; 0x0700] /\
  let vs := [U8 255; U16 0x1234; U32 0x11223344; U64 0x1122334455667788; I8 (-128); I16 (-2); I32 (-3);
             I64 (-0x8000000000000000); F16 0x7C00; F32 0x00000001; F64 0xFFF0000000000000;
             Bits [true; false; true; true; false; false; false; true]; Str (map Z.to_N [0x61; 0x62; 0xFF])] in
  wf_values vs = true /\
  (do s <- to_string code Little Little vs; decode_seq code Little Little (types vs) s) = Ok (vs, 48%nat).
Proof. vm_compute. repeat split. Qed.
Print Assumptions C19_nonvacuous.
