(* Pdu_rej_proofs.v — C01_encode_rejects for every class of [conforming_encode]: when the object
   stands for a message one of whose fields does not fit its wire width (or whose list is too long for
   its count / byte-count field), bytes([fc]) + encode() raises struct.error. *)
From PM.theories Require Import Base Struct PduCls PduSpec Pdu CorrPdu.
From PM.Generated Require Import GenPdu.
From PM.proofs Require Import Struct_proofs Pdu_bits_proofs Pdu_proofs Pdu_more_proofs.
From Coq Require Import ZifyBool.
Open Scope string_scope.
Open Scope list_scope.
Open Scope Z_scope.
Ltac Zify.zify_post_hook ::= Z.to_euclidean_division_equations.

Lemma enc_u8s_raises l : all_u8 l = false -> enc_u8s l = Raise StructError.
Proof.
  induction l as [|v t IH]; intros H; [discriminate H|].
  cbn [all_u8 forallb] in H. cbn [enc_u8s]. unfold pk. rewrite pack_cons.
  destruct (is_u8 v) eqn:E.
  - rewrite pack1_B by exact E. cbn [bind pack]. rewrite IH by exact H. reflexivity.
  - rewrite pack1_B_raises by exact E. reflexivity.
Qed.

(* split on every struct field in turn; the raising branches close by computation *)
Ltac pk_all :=
  unfold int2byte; unfold pk; rewrite ?pack_cons, ?pack_nil;
  repeat (pk_case; [|cbn [bind fst]; try reflexivity]); cbn [bind fst].

(* use the in-range facts collected by pk_all to simplify the hypothesis that spec_wf is false *)
Ltac use_true Hw :=
  repeat match goal with E : ?b = true |- _ => rewrite E in Hw; clear E end; cbn [andb] in Hw.

Lemma rej_bits c bits bc m : abs_raw (OBitsRsp c bits bc) = Some m -> spec_wf m = false ->
  py_pdu (OBitsRsp c bits bc) = Raise StructError.
Proof.
  intros Hr Hw. destruct c; cbn [abs_raw] in Hr; try discriminate Hr; injection Hr as <-; cbn [spec_wf] in Hw;
    open_pdu; rewrite py_pack_spec; unfold zlen; rewrite spec_pack_bits_length; fold (len bits);
    pk_all; use_true Hw; discriminate Hw.
Qed.

Lemma rej_coil c a v m : abs_raw (OCoil c a v) = Some m -> spec_wf m = false -> py_pdu (OCoil c a v) = Raise StructError.
Proof.
  intros Hr Hw. pose proof (coil_word_u16 v) as Hc.
  destruct c; cbn [abs_raw] in Hr; try discriminate Hr; injection Hr as <-; cbn [spec_wf] in Hw;
    open_pdu; pk_all; try reflexivity; use_true Hw; try discriminate Hw; congruence.
Qed.

Lemma rej_writereg a v m : abs_raw (OWriteRegReq a v) = Some m -> spec_wf m = false -> py_pdu (OWriteRegReq a v) = Raise StructError.
Proof.
  intros Hr Hw. cbn [abs_raw] in Hr. injection Hr as <-. cbn [spec_wf] in Hw.
  open_pdu. pk_all; try reflexivity. use_true Hw. discriminate Hw.
Qed.

Lemma rej_writecoils a vals bc m : abs_raw (OWriteCoilsReq a vals bc) = Some m -> spec_wf m = false ->
  py_pdu (OWriteCoilsReq a vals bc) = Raise StructError.
Proof.
  intros Hr Hw. cbn [abs_raw] in Hr. injection Hr as <-. cbn [spec_wf] in Hw. unfold bit_byte_count in Hw.
  open_pdu. change (zlen vals) with (len vals). pk_all; try reflexivity. use_true Hw. discriminate Hw.
Qed.

Lemma rej_writeregs a vals cnt bc m : abs_raw (OWriteRegsReq a vals cnt bc) = Some m -> spec_wf m = false ->
  py_pdu (OWriteRegsReq a vals cnt bc) = Raise StructError.
Proof.
  intros Hr Hw. cbn [abs_raw] in Hr.
  destruct ((cnt =? zlen vals) && (bc =? 2 * zlen vals)) eqn:E; [|discriminate Hr].
  injection Hr as <-. cbn [spec_wf] in Hw. split_andb E. apply Z.eqb_eq in E, E0. subst cnt bc.
  change (zlen vals) with (len vals). open_pdu. pk_all; try reflexivity.
  use_true Hw. rewrite enc_words_raises by exact Hw. reflexivity.
Qed.

Lemma rej_rw ra rc wa regs wc wbc m : abs_raw (ORWReq ra rc wa regs wc wbc) = Some m -> spec_wf m = false ->
  py_pdu (ORWReq ra rc wa regs wc wbc) = Raise StructError.
Proof.
  intros Hr Hw. cbn [abs_raw] in Hr.
  destruct ((wc =? zlen regs) && (wbc =? 2 * zlen regs)) eqn:E; [|discriminate Hr].
  injection Hr as <-. cbn [spec_wf] in Hw. split_andb E. apply Z.eqb_eq in E, E0. subst wc wbc.
  change (zlen regs) with (len regs). open_pdu. pk_all; try reflexivity.
  use_true Hw. rewrite enc_words_raises by exact Hw. reflexivity.
Qed.

Lemma rej_excstatus s m : abs_raw (OExcStatusRsp s) = Some m -> spec_wf m = false -> py_pdu (OExcStatusRsp s) = Raise StructError.
Proof.
  intros Hr Hw. cbn [abs_raw] in Hr. injection Hr as <-. cbn [spec_wf] in Hw.
  open_pdu. pk_all; try reflexivity. use_true Hw. discriminate Hw.
Qed.

Lemma rej_evcounter st c m : abs_raw (OEvCounterRsp st c) = Some m -> spec_wf m = false -> py_pdu (OEvCounterRsp st c) = Raise StructError.
Proof.
  intros Hr Hw. cbn [abs_raw] in Hr. injection Hr as <-. cbn [spec_wf] in Hw.
  open_pdu. pk_all; try reflexivity. use_true Hw. discriminate Hw.
Qed.

Lemma rej_evlog st mc ec evs m : abs_raw (OEvLogRsp st mc ec evs) = Some m -> spec_wf m = false ->
  py_pdu (OEvLogRsp st mc ec evs) = Raise StructError.
Proof.
  intros Hr Hw. cbn [abs_raw] in Hr. injection Hr as <-. cbn [spec_wf] in Hw.
  open_pdu. change (zlen evs) with (len evs). pk_all; try reflexivity.
  use_true Hw. rewrite enc_u8s_raises by exact Hw. reflexivity.
Qed.

Lemma rej_slaveid id st bc m : abs_raw (OSlaveIdRsp id st bc) = Some m -> spec_wf m = false -> wfb id = true ->
  py_pdu (OSlaveIdRsp id st bc) = Raise StructError.
Proof.
  intros Hr Hw Hp. cbn [abs_raw] in Hr. injection Hr as <-. cbn [spec_wf] in Hw. rewrite Hp, andb_true_r in Hw.
  open_pdu. change (zlen id) with (len id). pk_all; try reflexivity. use_true Hw. discriminate Hw.
Qed.

Lemma rej_exc orig fc code m : abs_raw (OExc orig fc code) = Some m -> spec_wf m = false ->
  (1 <=? orig) && (orig <? 128) = true -> py_pdu (OExc orig fc code) = Raise StructError.
Proof.
  intros Hr Hw Hp. cbn [abs_raw] in Hr. destruct (fc =? orig + 128) eqn:E; [|discriminate Hr]. apply Z.eqb_eq in E. subst fc.
  injection Hr as <-. cbn [spec_wf] in Hw. rewrite Hp in Hw. cbn [andb] in Hw.
  open_pdu. unfold fc_byte. replace ((0 <=? orig + 128) && (orig + 128 <? 256)) with true by lia. cbn [bind].
  unfold int2byte, pk. rewrite pack_cons, pack_nil, pack1_B_raises by exact Hw. reflexivity.
Qed.

Lemma rej_diag c sub msg m : abs_raw (ODiag c sub msg) = Some m -> spec_wf m = false -> py_pdu (ODiag c sub msg) = Raise StructError.
Proof.
  intros Hr Hw. cbn [abs_raw] in Hr.
  destruct (option_eqb Z.eqb (fc_of c) (Some 8)) eqn:Efc; [|discriminate Hr].
  destruct (fc_of c) as [fc|] eqn:Ef; [|discriminate Efc]. cbn [option_eqb] in Efc. apply Z.eqb_eq in Efc. subst fc.
  unfold py_pdu, obj_fc, class_of, py_encode, encode_st, fst. rewrite Ef. cbn [bind]. unfold enc_diag.
  destruct (cls_eqb c GetClearModbusPlusRequest) eqn:Eg.
  - apply cls_eqb_true in Eg. subst c. change (is_request GetClearModbusPlusRequest) with true in *.
    destruct msg as [|v|l|l|b]; try discriminate Hr; injection Hr as <-;
      cbn [spec_wf all_u16 forallb] in Hw; pk_all; try reflexivity; use_true Hw; discriminate Hw.
  - destruct msg as [|v|l|l|b]; destruct (is_request c) eqn:Er; try discriminate Hr; injection Hr as <-;
      cbn [spec_wf all_u16 forallb] in Hw; pk_all; try reflexivity; use_true Hw; try discriminate Hw;
      rewrite enc_words_raises by exact Hw; reflexivity.
Qed.

(* ---- file records -------------------------------------------------------------------------------- *)

Lemma enc_read_subreqs_raises rs : forallb sub_read_wf (map rs_sub_read rs) = false ->
  enc_read_subreqs rs = Raise StructError.
Proof.
  induction rs as [|r t IH]; intros H; [discriminate H|].
  cbn [map forallb] in H. cbn [enc_read_subreqs]. unfold sub_read_wf at 1 in H. cbn [rs_sub_read sr_file sr_record sr_length] in H.
  pk_all; try reflexivity. use_true H. rewrite IH by exact H. reflexivity.
Qed.

Lemma enc_write_subs_raises : forall rs ss,
  forallb (fun r => (fr_ref r =? 6) && (fr_len r * 2 =? zlen (fr_data r)) && wfb (fr_data r)) rs = true ->
  opt_map rs_sub_write rs = Some ss ->
  Pdu.zsum (map (fun r => fr_len r * 2 + 7) rs) = PduSpec.zsum (map sub_write_size ss) /\
  (forallb sub_write_wf ss = false -> enc_write_subs rs = Raise StructError).
Proof.
  induction rs as [|r t IH]; intros ss Hc Ho.
  - cbn in Ho. injection Ho as <-. split; [reflexivity|discriminate].
  - cbn [opt_map] in Ho. unfold rs_sub_write at 1 in Ho.
    destruct (words_of_bytes (fr_data r)) as [ws|] eqn:Ew; [|discriminate Ho].
    destruct (opt_map rs_sub_write t) as [st|] eqn:Et; [|discriminate Ho]. injection Ho as <-.
    cbn [forallb] in Hc. apply andb_true_iff in Hc as [Hr Hct]. split_andb Hr. apply Z.eqb_eq in Hr1.
    destruct (words_of_bytes_spec ws (fr_data r) Hr0 Ew) as (H1 & H2 & H3).
    destruct (IH st Hct eq_refl) as (IH1 & IH2).
    assert (Hlen : fr_len r = len ws) by (unfold zlen, len in *; lia).
    split.
    + cbn [map Pdu.zsum PduSpec.zsum fold_right]. fold (Pdu.zsum (map (fun r => fr_len r * 2 + 7) t)).
      fold (PduSpec.zsum (map sub_write_size st)). rewrite IH1, Hlen. unfold sub_write_size. cbn [sw_data]. lia.
    + intros Hw. cbn [forallb] in Hw. unfold sub_write_wf at 1 in Hw. cbn [sw_file sw_record sw_data] in Hw. rewrite H3, andb_true_r in Hw.
      cbn [enc_write_subs]. rewrite Hlen. pk_all; try reflexivity. use_true Hw. rewrite IH2 by exact Hw. reflexivity.
Qed.

Lemma rej_filerecs c rs m :
  mem_cls c [ReadFileRecordRequest; WriteFileRecordRequest; WriteFileRecordResponse] = true ->
  abs_raw (OFileRecs c rs) = Some m -> spec_wf m = false -> py_pdu (OFileRecs c rs) = Raise StructError.
Proof.
  intros Hc Hr Hw. destruct c; try discriminate Hc; cbn [abs_raw] in Hr.
  - destruct (forallb (fun r => fr_ref r =? 6) rs); [|discriminate Hr]. injection Hr as <-.
    fold rs_sub_read in Hw. cbn [spec_wf] in Hw. unfold len in Hw. rewrite map_length in Hw.
    open_pdu. replace (zlen rs * 7) with (7 * Z.of_nat (length rs)) by (unfold zlen; lia).
    pk_all; try reflexivity. use_true Hw. rewrite enc_read_subreqs_raises by exact Hw. reflexivity.
  - match type of Hr with (if ?b then _ else _) = _ => destruct b eqn:Eb; [|discriminate Hr] end.
    fold rs_sub_write in Hr. destruct (opt_map rs_sub_write rs) as [ss|] eqn:Eo; [|discriminate Hr].
    change (cls_eqb WriteFileRecordRequest WriteFileRecordRequest) with true in Hr. injection Hr as <-.
    cbn [spec_wf] in Hw. destruct (enc_write_subs_raises rs ss Eb Eo) as (H1 & H2).
    open_pdu. rewrite H1. pk_all; try reflexivity. use_true Hw. rewrite H2 by exact Hw. reflexivity.
  - match type of Hr with (if ?b then _ else _) = _ => destruct b eqn:Eb; [|discriminate Hr] end.
    fold rs_sub_write in Hr. destruct (opt_map rs_sub_write rs) as [ss|] eqn:Eo; [|discriminate Hr].
    change (cls_eqb WriteFileRecordResponse WriteFileRecordRequest) with false in Hr. injection Hr as <-.
    cbn [spec_wf] in Hw. destruct (enc_write_subs_raises rs ss Eb Eo) as (H1 & H2).
    open_pdu. rewrite H1. pk_all; try reflexivity. use_true Hw. rewrite H2 by exact Hw. reflexivity.
Qed.

(* ---- device identification response ---------------------------------------------------------------- *)

Lemma mei_objs_raises : forall items space nobj acc,
  Pdu.zsum (map obj_size items) < space ->
  forallb (fun kv : Z * bytes => wfb (snd kv)) items = true -> forallb object_wf items = false ->
  mei_objs items space nobj acc = Raise StructError.
Proof.
  induction items as [|[oid d] t IH]; intros space nobj acc Hs Hp Hw; [discriminate Hw|].
  cbn [map Pdu.zsum fold_right] in Hs. fold (Pdu.zsum (map obj_size t)) in Hs.
  pose proof (zsum_obj_size_nonneg t) as Hn. unfold obj_size at 1 in Hs. cbn [snd] in Hs.
  cbn [forallb snd] in Hp. apply andb_true_iff in Hp as [Hp1 Hp2].
  cbn [forallb] in Hw. unfold object_wf at 1 in Hw. cbn [fst snd] in Hw. rewrite Hp1, andb_true_r in Hw.
  cbn [mei_objs]. change (zlen d) with (len d) in *. replace (space - (2 + len d) <=? 0) with false by lia.
  pk_all; try reflexivity. use_true Hw. apply IH; [lia|exact Hp2|exact Hw].
Qed.

Lemma rej_mei sub rc cf more next nobj info sl m :
  abs_raw (OMeiRsp sub rc cf more next nobj info sl) = Some m -> spec_wf m = false ->
  forallb (fun kv : Z * bytes => wfb (snd kv)) (mei_items info) = true ->
  py_pdu (OMeiRsp sub rc cf more next nobj info sl) = Raise StructError.
Proof.
  intros Hr Hw Hp. cbn [abs_raw] in Hr.
  match type of Hr with (if ?b then _ else _) = _ => destruct b eqn:Eb; [|discriminate Hr] end.
  injection Hr as <-. split_andb Eb. apply Z.eqb_eq in Eb. subst sub.
  assert (Hfit : Pdu.zsum (map obj_size (mei_items info)) < 253 - 6) by (apply Z.ltb_lt in Eb0; exact Eb0).
  cbn [spec_wf] in Hw.
  unfold py_pdu, obj_fc, class_of, py_encode, encode_st. tab. cbn [bind].
  unfold pk. rewrite ?pack_cons, ?pack_nil. rewrite (pack1_B 14) by reflexivity. cbn [bind].
  repeat (pk_case; [|cbn [bind fst]; try reflexivity]). cbn [bind fst]. use_true Hw.
  destruct (forallb object_wf (mei_items info)) eqn:Eo.
  - rewrite mei_objs_fit by assumption. rewrite Z.add_0_l. rewrite andb_true_r in Hw.
    rewrite ?pack_cons, ?pack_nil. repeat (pk_case; [|cbn [bind fst]; try reflexivity]). use_true Hw. discriminate Hw.
  - rewrite mei_objs_raises by assumption. reflexivity.
Qed.

(* ---- every class of conforming_encode ---------------------------------------------------------------- *)

Theorem encode_rejects o m :
  mem_cls (class_of o) conforming_encode = true -> abs_raw o = Some m -> spec_wf m = false -> payload_ok o = true ->
  py_pdu o = Raise StructError.
Proof.
  intros Hc Hr Hw Hp. destruct o.
  - exact (encode_rejects_fixed _ _ _ Hr Hw).
  - destruct c; cbn [abs_raw] in Hr; try discriminate Hr; injection Hr as <-; discriminate Hw.
  - exact (rej_bits _ _ _ _ Hr Hw).
  - exact (encode_rejects_regs _ _ _ Hr Hw).
  - exact (rej_coil _ _ _ _ Hr Hw).
  - exact (rej_writereg _ _ _ Hr Hw).
  - exact (rej_writecoils _ _ _ _ Hr Hw).
  - exact (rej_writeregs _ _ _ _ _ Hr Hw).
  - exact (rej_rw _ _ _ _ _ _ _ Hr Hw).
  - exact (rej_diag _ _ _ _ Hr Hw).
  - exact (rej_excstatus _ _ Hr Hw).
  - exact (rej_evcounter _ _ _ Hr Hw).
  - exact (rej_evlog _ _ _ _ _ Hr Hw).
  - exact (rej_slaveid _ _ _ _ Hr Hw Hp).
  - cbn [class_of] in Hc. destruct c; try (vm_compute in Hc; discriminate Hc); try discriminate Hr;
      (apply (rej_filerecs _ _ m); [reflexivity|exact Hr|exact Hw]).
  - vm_compute in Hc. discriminate Hc.
  - exact (rej_mei _ _ _ _ _ _ _ _ _ Hr Hw Hp).
  - exact (rej_exc _ _ _ _ Hr Hw Hp).
  - discriminate Hr.
Qed.
