#!/usr/bin/env python3
"""tools/seedrerun.py [-j N] [Cxx-n …]  — re-run the stored breaking changes of /verif/seeded against the current checks
(each in a private copy of /verif and a private worktree of /repo) and refresh `what_we_ran` / `caught` in their meta.json."""
import json
import os
import re
import subprocess
import sys
from concurrent.futures import ThreadPoolExecutor

args = sys.argv[1:]
jobs = 3
if args[:1] == ["-j"]:
    jobs = int(args[1])
    args = args[2:]
seeds = args or sorted(d for d in os.listdir("/verif/seeded") if re.match(r"C\d+-\d+$", d))
verif_head = subprocess.run(["git", "-C", "/verif", "rev-parse", "--short", "HEAD"], capture_output=True, text=True).stdout.strip()
repo_head = subprocess.run(["git", "-C", "/repo", "rev-parse", "--short", "HEAD"], capture_output=True, text=True).stdout.strip()


def one(sid):
    d = "/verif/seeded/" + sid
    prop = sid.split("-")[0]
    p = subprocess.run(["/verif/tools/seedtest.sh", d + "/patch.diff", prop], capture_output=True, text=True, timeout=3600)
    log = p.stdout + p.stderr
    os.makedirs("/tmp/seedres", exist_ok=True)
    open("/tmp/seedres/rerun_%s.txt" % sid, "w").write(log)
    if "PATCH DOES NOT APPLY" in log:
        return sid, None, "PATCH DOES NOT APPLY"
    viol = re.search(r"^VIOLATION.*$", log, re.M)
    summ = re.search(r"^%s: .*$" % prop, log, re.M)
    verdict = re.search(r"verdict: (\S+)", log)
    meta = json.load(open(d + "/meta.json"))
    meta["what_we_ran"] = [{
        "check": "./check %s --tier quick (private copy of /verif at %s against a worktree of /repo %s with the patch applied)" % (prop, verif_head, repo_head),
        "violation_line": bool(viol), "no_failing_input_found": bool(viol and "no-failing-input-found" in viol.group(0)),
        "verdict": verdict.group(1) if verdict else None, "summary": summ.group(0)[:400] if summ else None}]
    meta["caught"] = bool(viol)
    json.dump(meta, open(d + "/meta.json", "w"), indent=1)
    return sid, bool(viol), (verdict.group(1) if verdict else "-")


with ThreadPoolExecutor(max_workers=jobs) as ex:
    for sid, caught, verdict in ex.map(one, seeds):
        print(sid, "caught=%s" % caught, verdict, flush=True)
