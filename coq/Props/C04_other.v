(* Props/C04_other.v — the request classes that do not touch the datastore (FC 7, 8 and its
   sub-functions, 11, 12, 17, 20, 21, 24), as an extension of C04.  ONLY statements.
   [serve_other XC YC] interprets GenExecOther.code — the 25 execute() bodies regenerated from
   other_message.py / diag_message.py / file_message.py — over the control-block record of
   Device.v; requests and responses are objects of the PDU model (Pdu.obj);
   [spec_other] is ExecOtherSpec.v (MODBUS Application Protocol v1.1b3 sections 6.7-6.10,
   6.13-6.15, 6.19), [abs_dev] the abstraction of the control block, [view_other] the spec
   reading of a response object. *)
From PM.theories Require Import Base Expr Store PduCls Pdu Device Exec ExecOther ExecOtherSpec ExecOtherView.
From PM.Generated Require GenExec GenExecOther.
From PM.proofs Require Import ExecOther_proofs.
Open Scope string_scope.
Open Scope list_scope.
Open Scope Z_scope.

(* the full statement: every such request is executed as the document says *)
Definition C04_other_full_statement : Prop :=
  forall dv w, wf_dev dv -> refines_at dv w.

(* refuted by the unchanged code (none of these contradicts the text of C04 / C05, which only
   speak about the data-access function codes; they are described in docs/C04_other.md) *)
Theorem C04_other_exc_status_refuted : rsp_of dev_ex WExcStatus = Some (SStatus 393) /\ 255 < 393.
Proof. exact exc_status_ninth_bit. Qed.
Print Assumptions C04_other_exc_status_refuted.

Theorem C04_other_restart_refuted :
  option_map fst (sv dev_ex (WDiag 1 65280)) = Some dev_ex /\
  sc_bus_msg (fst (spec_other (abs_dev dev_ex) (WDiag 1 65280))) = 0 /\
  s_listen (fst (spec_other (abs_dev dev_ex) (WDiag 1 65280))) = false.
Proof. exact restart_does_nothing. Qed.
Print Assumptions C04_other_restart_refuted.

Theorem C04_other_diag_register_refuted :
  rsp_of dev_ex (WDiag 2 0) = Some (SDiag 2 [256]) /\
  snd (spec_other (abs_dev dev_ex) (WDiag 2 0)) = SDiag 2 [1].
Proof. exact diag_register_byte_swapped. Qed.
Print Assumptions C04_other_diag_register_refuted.

Theorem C04_other_clear_counters_refuted :
  option_map (fun p => d_events (fst p)) (sv dev_ex (WDiag 10 0)) = Some [] /\
  s_events (fst (spec_other (abs_dev dev_ex) (WDiag 10 0))) = [4; 0].
Proof. exact clear_counters_wipes_log. Qed.
Print Assumptions C04_other_clear_counters_refuted.

Theorem C04_other_unknown_subfunction_refuted : rsp_of dev_ex (WDiag 5 0) = Some (SOExc 136 4).
Proof. exact unknown_subfunction_is_04. Qed.
Print Assumptions C04_other_unknown_subfunction_refuted.

Theorem C04_other_file_fifo_refuted :
  rsp_of dev_ex (WFifo 1246) = Some (SFifo []) /\
  snd (spec_other (abs_dev dev_ex) (WFifo 1246)) = SOExc 152 2 /\
  option_map snd (serve_other XC YC dev_ex (OFileRecs ReadFileRecordRequest
      [{| fr_ref := 6; fr_file := 4; fr_recno := 1; fr_data := []; fr_len := 2; fr_rlen := 5 |}]))
    = Some (OFileRecs ReadFileRecordResponse []) /\
  snd (spec_other (abs_dev dev_ex) (WReadFile [(6, 4, 1, 2)])) = SOExc 148 2.
Proof. exact file_and_fifo_answered_normally. Qed.
Print Assumptions C04_other_file_fifo_refuted.

(* the strongest true statement: in [proved_region] (FC 7 with event counter 0; FC 11, 12, 17;
   FC 8 sub-functions 00, 03, 04, 0B..12, 14, and 0A with an empty event log) the step commutes
   with the abstraction, the response is the document's, the control block stays well formed *)
Theorem C04_other_refines : forall dv w,
  wf_dev dv -> proved_region dv w ->
  exists q dv' r, obj_of_wire w = Some q /\ serve_other XC YC dv q = Some (dv', r) /\
    view_other r = Some (snd (spec_other (abs_dev dv) w)) /\
    sdev_eqb (abs_dev dv') (fst (spec_other (abs_dev dv) w)) = true /\ wf_dev dv'.
Proof. exact other_refines. Qed.
Print Assumptions C04_other_refines.

(* which counters change: only ClearCounters and ClearOverrunCount requests can change any of the
   nine counters (no execute() increments one) *)
Theorem C04_other_counters_frame : forall dv q dv' r,
  serve_other XC YC dv q = Some (dv', r) ->
  cls_name (class_of q) <> "ClearCountersRequest" -> cls_name (class_of q) <> "ClearOverrunCountRequest" ->
  d_counters dv' = d_counters dv.
Proof. exact counters_frame. Qed.
Print Assumptions C04_other_counters_frame.

Example C04_other_nonvacuous :
  wf_dev dev_ex /\ proved_region dev_ex (WDiag 11 0) /\ proved_region dev_ex (WDiag 20 7) /\
  rsp_of dev_ex (WDiag 11 0) = Some (SDiag 11 [5]) /\
  rsp_of dev_ex WEvLog = Some (SEvLog 0 9 5 [4; 0]) /\
  option_map (fun p => d_counters (fst p)) (sv dev_ex (WDiag 20 7)) = Some [5; 0; 0; 3; 0; 0; 0; 0; 9].
Proof. vm_compute. repeat split; auto. Qed.
