(* Client_reads_proofs.v — where the bytes handed to processIncomingPacket come from: the response of every
   _transact is the concatenation of (at most two) reads, each a script element clipped to the requested size.
   With it the table invariant needs the framer to be "clean" only on such byte strings. *)
From Coq Require Import ZifyBool.
From PM.theories Require Import Base Expr Client CorrClient.
From PM.Generated Require Import GenClient.
From PM.proofs Require Import Client_proofs.
Open Scope list_scope.
Open Scope Z_scope.

Definition chunk_of (sc : list tev) (x : bytes) : Prop := x = [] \/ exists d n, In (Data d) sc /\ x = clip n d.
Definition built_from (sc : list tev) (bs : bytes) : Prop := exists x y, bs = x ++ y /\ chunk_of sc x /\ chunk_of sc y.

Lemma chunk_of_incl a b x : incl a b -> chunk_of a x -> chunk_of b x.
Proof. intros Hi [->|(d & n & Hin & ->)]; [left; reflexivity|right; exists d, n; split; [apply Hi, Hin|reflexivity]]. Qed.
Lemma built_from_incl a b x : incl a b -> built_from a x -> built_from b x.
Proof. intros Hi (p & q & -> & Hp & Hq). exists p, q. repeat split; eapply chunk_of_incl; eassumption. Qed.
Lemma built_nil sc : built_from sc [].
Proof. exists [], []. repeat split; left; reflexivity. Qed.

Lemma pop_incl w c e w' : pop w c = (e, w') -> incl (w_script w') (w_script w) /\ (e = Nothing \/ In e (w_script w)).
Proof.
  unfold pop. destruct (w_script w) as [|x t] eqn:E; intro H; inversion H; subst; cbn [w_script].
  - split; [apply incl_refl|left; reflexivity].
  - split; [apply incl_tl, incl_refl|right; left; reflexivity].
Qed.

Lemma t_recv_chunk w sz w' r : Client.t_recv w sz = (w', r) ->
  incl (w_script w') (w_script w) /\ (forall x, r = Ok x -> chunk_of (w_script w) x).
Proof.
  unfold Client.t_recv. destruct (pop w (CRecv sz)) as [e w1] eqn:Hp. apply pop_incl in Hp. destruct Hp as (Hi & He).
  destruct e; intro H; inversion H; subst; (split; [exact Hi|]); intros x Hx; inversion Hx; subst; try (left; reflexivity).
  right. exists bs, sz. split; [|reflexivity]. destruct He as [He|He]; [discriminate|exact He].
Qed.

Lemma t_connect_incl w conn w' b : t_connect w conn = (w', b) -> incl (w_script w') (w_script w).
Proof.
  unfold t_connect. destruct conn; [intro H; inversion H; apply incl_refl|].
  destruct (pop w CConnect) as [e w1] eqn:Hp. apply pop_incl in Hp. destruct e; intro H; inversion H; subst; apply Hp.
Qed.
Lemma t_send_incl w p w' r : t_send w p = (w', r) -> incl (w_script w') (w_script w).
Proof.
  unfold t_send. destruct (pop w (CSend p)) as [e w1] eqn:Hp. apply pop_incl in Hp. destruct e; intro H; inversion H; subst; apply Hp.
Qed.

Lemma recv_model_built fr w exp full w' r : recv_model code fr w exp full = (w', r) ->
  incl (w_script w') (w_script w) /\ (forall bs, r = Ok bs -> built_from (w_script w) bs).
Proof.
  unfold recv_model. destruct full.
  { intro H. apply t_recv_chunk in H. destruct H as (Hi & Hc). split; [exact Hi|].
    intros bs Hb. exists bs, []. rewrite app_nil_r. repeat split; [apply Hc, Hb|left; reflexivity]. }
  destruct (Client.t_recv w (Some (g_min_size code fr))) as [w1 r1] eqn:H1. apply t_recv_chunk in H1. destruct H1 as (Hi1 & Hc1).
  destruct r1 as [rm|e]; [|intro H; inversion H; subst; split; [exact Hi1|discriminate]].
  destruct (negb _); [intro H; inversion H; subst; split; [exact Hi1|discriminate]|].
  assert (G : forall x w2 r2, (let '(w2, r2) := Client.t_recv w1 x in
              match r2 with Raise e => (w2, Raise e) | Ok rest => (w2, Ok (rm ++ rest)) end) = (w2, r2) ->
              incl (w_script w2) (w_script w) /\ (forall bs, r2 = Ok bs -> built_from (w_script w) bs)).
  { intros x w2 r2. destruct (Client.t_recv w1 x) as [w3 r3] eqn:H3. apply t_recv_chunk in H3. destruct H3 as (Hi3 & Hc3).
    destruct r3 as [rest|e]; intro H; inversion H; subst; (split; [eapply incl_tran; eassumption|]); [|discriminate].
    intros bs Hb. inversion Hb; subst. exists rm, rest. repeat split; [apply Hc1; reflexivity|].
    eapply chunk_of_incl; [exact Hi1|apply Hc3; reflexivity]. }
  destruct rm as [|b0 rm']; [apply G|].
  destruct (func_code fr (b0 :: rm')) as [fc|e]; [|intro H; inversion H; subst; split; [exact Hi1|discriminate]].
  destruct (fc <? g_err_threshold code); apply G.
Qed.

Section Reads.
Variable FS : Type.
Variable F : framer FS.

Lemma transact_built fr w conn rq tid exp full bc w' conn' r :
  transact code FS F fr w conn rq tid exp full bc = (w', conn', r) ->
  incl (w_script w') (w_script w) /\ (forall bs, r = Ok bs -> built_from (w_script w) bs).
Proof.
  unfold transact. destruct (t_connect w conn) as [w1 c1] eqn:Hc. apply t_connect_incl in Hc.
  destruct (negb c1); [intro H; inversion H; subst; split; [exact Hc|discriminate]|].
  destruct (t_send w1 (f_build F rq tid)) as [w2 rs] eqn:Hs. apply t_send_incl in Hs.
  assert (H12 : incl (w_script w2) (w_script w)) by (eapply incl_tran; eassumption).
  destruct rs as [u|e].
  - destruct bc; [intro H; inversion H; subst; split; [exact H12|intros bs Hb; inversion Hb; apply built_nil]|].
    destruct (recv_model code fr w2 exp full) as [w3 rr] eqn:Hr. apply recv_model_built in Hr. destruct Hr as (Hi3 & Hb3).
    assert (H13 : incl (w_script w3) (w_script w)) by (eapply incl_tran; eassumption).
    destruct rr as [bs|e]; [|destruct (caught code e)]; intro H; inversion H; subst; (split; [exact H13|]);
      intros b Hb; inversion Hb; subst; try apply built_nil.
    eapply built_from_incl; [exact H12|apply Hb3; reflexivity].
  - destruct (caught code e); intro H; inversion H; subst; (split; [exact H12|]); intros b Hb; inversion Hb; apply built_nil.
Qed.

Lemma step_built sc E st st' f :
  incl (w_script (l_w st)) sc -> step FS F E st = (st', f) ->
  incl (w_script (l_w st')) sc /\ built_from sc (l_resp st').
Proof.
  intros Hi. unfold step.
  destruct (transact code FS F _ _ _ _ _ _ _ _) as [[w conn] r] eqn:Ht. apply transact_built in Ht. destruct Ht as (Hiw & Hb).
  assert (Hw : incl (w_script w) sc) by (eapply incl_tran; eassumption).
  destruct r as [bs|e].
  - pose proof (nr_update_same E (set_resp st w conn bs)) as (A & _ & _ & D & _). cbn [set_resp l_w l_resp] in A, D.
    assert (Hbs : built_from sc bs) by (eapply built_from_incl; [exact Hi|apply Hb; reflexivity]).
    assert (G : forall s2 f2, retry_tail E (nr_update E (set_resp st w conn bs)) = (s2, f2) ->
              incl (w_script (l_w s2)) sc /\ built_from sc (l_resp s2)).
    { intros s2 f2 H2. apply retry_tail_props in H2. destruct H2 as (A2 & _ & D2 & _). rewrite A2, D2, A, D. split; assumption. }
    destruct bs; [destruct (c_roe (e_cfg E))|destruct (c_roi (e_cfg E))]; try apply G;
      intro H; inversion H; subst; rewrite A, D; split; assumption.
  - intro H; inversion H; subst. cbn [set_resp l_w l_resp]. split; [exact Hw|apply built_nil].
Qed.

Lemma loop_built sc E : forall fuel st st' fin,
  incl (w_script (l_w st)) sc -> built_from sc (l_resp st) ->
  loop code FS F E fuel st = (st', fin) -> built_from sc (l_resp st').
Proof.
  induction fuel as [|k IH]; intros st st' fin Hi Hb H; cbn [loop] in H.
  - inversion H; subst; exact Hb.
  - destruct (guard code (l_retries st)); [|inversion H; subst; exact Hb].
    rewrite body_is_step in H. destruct (step FS F E st) as [st1 f] eqn:Hs.
    apply (step_built sc) in Hs; [|exact Hi]. destruct Hs as (A & B).
    destruct f; [eapply IH; eassumption|inversion H; subst; exact B|inversion H; subst; exact B].
Qed.

(* the table invariant, with the framer required to be clean only on byte strings built from this call's script *)
Theorem execute_tx_reads c st rq sc st' o :
  s_tx st = [] -> reset_empties FS F ->
  (forall fs resp fs' ms e, f_nonempty F fs = false -> built_from sc resp ->
     f_process F fs resp (r_unit rq) = (fs', ms, Some e) -> ms = []) ->
  execute code FS F c st rq sc = (st', o) -> s_tx st' = [].
Proof.
  intros Htx Hreset Hclean H. unfold execute in H. rewrite Htx in H.
  destruct (t_connect _ (s_conn st)) as [w1 conn1] eqn:Hc. apply t_connect_incl in Hc. cbn [w_script] in Hc.
  destruct (negb conn1); [inversion H; reflexivity|].
  destruct (c_bcast c && (r_unit rq =? 0)).
  { destruct (transact _ _ _ _ _ _ _ _ _ _ _) as [[w2 conn2] r]. inversion H; reflexivity. }
  destruct (loop _ _ _ _ _ _) as [l1 fin] eqn:Hl.
  apply (loop_built sc) in Hl; [|exact Hc|apply built_nil].
  destruct fin; [|inversion H; reflexivity|inversion H; reflexivity].
  destruct (f_process F _ _ _) as [[fs2 ms] ex] eqn:Hp.
  rewrite add_all_nil in H.
  destruct ex as [e|].
  - assert (Hms : ms = []).
    { eapply Hclean; [|exact Hl|exact Hp]. destruct (f_nonempty F (s_fs st)) eqn:Hq; [apply Hreset|exact Hq]. }
    subst ms. destruct e; inversion H; reflexivity.
  - destruct ms as [|a t].
    + cbn [d_pop] in H. inversion H; reflexivity.
    + cbn [d_pop] in H. rewrite Z.eqb_refl in H. inversion H; reflexivity.
Qed.
End Reads.
