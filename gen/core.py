"""Translator core: fail-closed shape matching over Python `ast`, printing Coq terms.

Everything here either recognises an exact source shape and prints the corresponding
Coq *data* (an `Expr.expr` term, a constant, a list), or raises TranslatorFail.  There
are no semantics here beyond shape matching and printing; the semantics is the proved
Gallina interpreter `PM.theories.Expr.eval`.
"""
import ast
import os

REPO = os.environ.get("VERIF_REPO", "/repo")


class TranslatorFail(Exception):
    def __init__(self, path, line, reason):
        self.path, self.line, self.reason = path, line, reason
        super().__init__("TRANSLATOR-FAIL %s:%s %s" % (path, line, reason))


class Src:
    """A parsed source file of /repo."""

    def __init__(self, rel):
        self.rel = rel
        self.path = os.path.join(REPO, rel)
        try:
            with open(self.path) as f:
                self.text = f.read()
            self.mod = ast.parse(self.text)
        except (OSError, SyntaxError) as e:
            raise TranslatorFail(rel, 0, "cannot parse: %s" % e)

    def fail(self, node, reason):
        raise TranslatorFail(self.rel, getattr(node, "lineno", 0), reason)

    def cls(self, name):
        for n in self.mod.body:
            if isinstance(n, ast.ClassDef) and n.name == name:
                return n
        raise TranslatorFail(self.rel, 0, "class %s not found" % name)

    def func(self, cls, name):
        body = self.mod.body if cls is None else self.cls(cls).body
        for n in body:
            if isinstance(n, ast.FunctionDef) and n.name == name:
                return n
        raise TranslatorFail(self.rel, 0, "function %s.%s not found" % (cls, name))

    def has_func(self, cls, name):
        return any(isinstance(n, ast.FunctionDef) and n.name == name for n in self.cls(cls).body)

    def class_attr(self, cls, name):
        """value node of a class-level `name = <expr>` assignment"""
        for n in self.cls(cls).body:
            if isinstance(n, ast.Assign) and len(n.targets) == 1 and \
                    isinstance(n.targets[0], ast.Name) and n.targets[0].id == name:
                return n.value
        return None

    def module_const(self, name):
        for n in self.mod.body:
            if isinstance(n, ast.Assign) and len(n.targets) == 1 and \
                    isinstance(n.targets[0], ast.Name) and n.targets[0].id == name:
                return n.value
        raise TranslatorFail(self.rel, 0, "module constant %s not found" % name)


# ------------------------------------------------------------------ printing helpers

def coq_z(n):
    n = int(n)
    return "(%d)" % n if n < 0 else "%d" % n


def coq_str(s):
    return '"' + s.replace('"', '""') + '"'


def coq_list(items):
    return "[" + "; ".join(items) + "]"


def coq_bool(b):
    return "true" if b else "false"


BINOPS = {ast.Add: "Add", ast.Sub: "Sub", ast.Mult: "Mul", ast.FloorDiv: "FloorDiv",
          ast.Mod: "Mod", ast.BitAnd: "BitAnd", ast.BitOr: "BitOr", ast.BitXor: "BitXor",
          ast.LShift: "Shl", ast.RShift: "Shr"}
CMPOPS = {ast.Lt: "Lt", ast.LtE: "Le", ast.Gt: "Gt", ast.GtE: "Ge", ast.Eq: "Eq", ast.NotEq: "Ne"}


def is_docstring(stmt):
    return isinstance(stmt, ast.Expr) and isinstance(stmt.value, ast.Constant) \
        and isinstance(stmt.value.value, str)


def is_log_call(stmt):
    """`_logger.debug(...)` / `_logger.info(...)` etc. — no effect on the model"""
    if not (isinstance(stmt, ast.Expr) and isinstance(stmt.value, ast.Call)):
        return False
    f = stmt.value.func
    return isinstance(f, ast.Attribute) and isinstance(f.value, ast.Name) \
        and f.value.id in ("_logger", "logger", "log") \
        and f.attr in ("debug", "info", "warning", "error", "critical", "exception")


class ExprTr:
    """Python expression -> Coq `expr` text.

    atoms: set of source texts (as printed by ast.unparse) that may appear as atoms,
           e.g. {"self.address", "address", "count", "len(self.values)"}.
    subst: dict local-name -> already translated Coq text (for inlined assignments).
    boolean-typed results are tracked so that `and`/`or`/`not`/if-conditions are only
    accepted over comparisons and boolean operators (Python's and/or return operands).
    """

    def __init__(self, src, atoms, consts=None, bool_atoms=()):
        self.src = src
        self.atoms = set(atoms)
        self.bool_atoms = set(bool_atoms)  # atoms the model guarantees to be 0/1
        self.consts = dict(consts or {})   # symbolic constants: source text -> int

    def tr(self, node, subst=None):
        txt, _ = self._tr(node, subst or {})
        return txt

    def tr_bool(self, node, subst=None):
        txt, isb = self._tr(node, subst or {})
        if not isb:
            self.src.fail(node, "boolean context over non-boolean expression: %s" % ast.unparse(node))
        return txt

    def _tr(self, n, subst):
        src = self.src
        if isinstance(n, ast.Constant):
            if isinstance(n.value, bool):
                return "(EInt %s)" % coq_z(int(n.value)), True
            if isinstance(n.value, int):
                return "(EInt %s)" % coq_z(n.value), False
            src.fail(n, "unsupported constant %r" % (n.value,))
        text = ast.unparse(n)
        if isinstance(n, ast.Name) and n.id in subst:
            return subst[n.id]
        if text in self.consts:
            return "(EInt %s)" % coq_z(self.consts[text]), False
        if isinstance(n, (ast.Name, ast.Attribute, ast.Call, ast.Subscript)) and text in self.atoms:
            return "(EAtom %s)" % coq_str(text), text in self.bool_atoms
        if isinstance(n, ast.BinOp):
            op = BINOPS.get(type(n.op))
            if op is None:
                src.fail(n, "unsupported binary operator in %s" % text)
            a, ab = self._tr(n.left, subst)
            b, bb = self._tr(n.right, subst)
            if op in ("FloorDiv", "Mod"):
                if not (isinstance(n.right, ast.Constant) and isinstance(n.right.value, int)
                        and not isinstance(n.right.value, bool) and n.right.value != 0):
                    src.fail(n, "divisor must be a non-zero integer literal: %s" % text)
            if op in ("Shl", "Shr"):
                if not (isinstance(n.right, ast.Constant) and isinstance(n.right.value, int)
                        and not isinstance(n.right.value, bool) and n.right.value >= 0):
                    src.fail(n, "shift count must be a non-negative literal: %s" % text)
            isb = ab and bb and op in ("BitAnd", "BitOr", "BitXor")
            return "(EBin %s %s %s)" % (op, a, b), isb
        if isinstance(n, ast.UnaryOp):
            a, ab = self._tr(n.operand, subst)
            if isinstance(n.op, ast.USub):
                return "(ENeg %s)" % a, False
            if isinstance(n.op, ast.Invert):
                return "(EInvert %s)" % a, False
            if isinstance(n.op, ast.Not):
                if not ab:
                    src.fail(n, "`not` over non-boolean: %s" % text)
                return "(ENotB %s)" % a, True
            src.fail(n, "unsupported unary operator: %s" % text)
        if isinstance(n, ast.Compare):
            ops = [CMPOPS.get(type(o)) for o in n.ops]
            if None in ops:
                src.fail(n, "unsupported comparison: %s" % text)
            terms = [self._tr(x, subst)[0] for x in [n.left] + n.comparators]
            if len(ops) == 1:
                return "(ECmp %s %s %s)" % (ops[0], terms[0], terms[1]), True
            if len(ops) == 2:
                return "(EChain %s %s %s %s %s)" % (terms[0], ops[0], terms[1], ops[1], terms[2]), True
            src.fail(n, "comparison chain longer than 3: %s" % text)
        if isinstance(n, ast.BoolOp):
            parts = []
            for v in n.values:
                t, isb = self._tr(v, subst)
                if not isb:
                    src.fail(n, "and/or over non-boolean operand: %s" % text)
                parts.append(t)
            ctor = "EAndB" if isinstance(n.op, ast.And) else "EOrB"
            acc = parts[-1]
            for p in reversed(parts[:-1]):
                acc = "(%s %s %s)" % (ctor, p, acc)
            return acc, True
        if isinstance(n, ast.IfExp):
            c, cb = self._tr(n.test, subst)
            if not cb:
                src.fail(n, "conditional expression over non-boolean test: %s" % text)
            a, ab = self._tr(n.body, subst)
            b, bb = self._tr(n.orelse, subst)
            return "(EIf %s %s %s)" % (c, a, b), ab and bb
        src.fail(n, "unsupported expression: %s" % text)

    # -------------------------------------------------------------- straight-line bodies

    def straightline(self, stmts, subst=None, allow_no_return=False, want_subst=False):
        """Translate a straight-line body (docstring, logging, `x = e`, `x op= e`,
        `if c: return e` / `if c: x = e [else: x = e']`, `return e`) into one expr."""
        subst = dict(subst or {})
        src = self.src
        for i, st in enumerate(stmts):
            if is_docstring(st) or is_log_call(st) or isinstance(st, ast.Pass):
                continue
            if isinstance(st, ast.Assign):
                if len(st.targets) != 1 or not isinstance(st.targets[0], ast.Name):
                    src.fail(st, "unsupported assignment target: %s" % ast.unparse(st))
                subst[st.targets[0].id] = self._tr(st.value, subst)
                continue
            if isinstance(st, ast.AugAssign):
                if not isinstance(st.target, ast.Name) or st.target.id not in subst:
                    src.fail(st, "unsupported augmented assignment: %s" % ast.unparse(st))
                op = BINOPS.get(type(st.op))
                if op is None or op in ("FloorDiv", "Mod", "Shl", "Shr"):
                    src.fail(st, "unsupported augmented operator: %s" % ast.unparse(st))
                a, ab = subst[st.target.id]
                b, bb = self._tr(st.value, subst)
                isb = ab and bb and op in ("BitAnd", "BitOr", "BitXor")
                subst[st.target.id] = ("(EBin %s %s %s)" % (op, a, b), isb)
                continue
            if isinstance(st, ast.Return):
                if st.value is None:
                    src.fail(st, "bare return")
                return self._tr(st.value, subst)
            if isinstance(st, ast.If):
                c, cb = self._tr(st.test, subst)
                if not cb:
                    src.fail(st, "if over non-boolean test: %s" % ast.unparse(st.test))
                # if c: return e  ; rest
                if len(st.body) == 1 and isinstance(st.body[0], ast.Return) and not st.orelse:
                    a, ab = self._tr(st.body[0].value, subst)
                    b, bb = self.straightline(stmts[i + 1:], subst)
                    return "(EIf %s %s %s)" % (c, a, b), ab and bb
                # if c: x (op)= e [else: x (op)= e']  — conditional update of one local
                upd = self._cond_update(st, c, subst)
                if upd is not None:
                    name, val = upd
                    subst[name] = val
                    continue
                src.fail(st, "unsupported if statement shape")
            src.fail(st, "unsupported statement: %s" % ast.unparse(st).split("\n")[0])
        if want_subst:
            return subst
        if allow_no_return:
            return None
        src.fail(stmts[-1] if stmts else None, "function body falls off the end without return")

    def _cond_update(self, st, c, subst):
        def one(body):
            if len(body) != 1:
                return None
            s = body[0]
            if isinstance(s, ast.Assign) and len(s.targets) == 1 and isinstance(s.targets[0], ast.Name):
                return s.targets[0].id, self._tr(s.value, subst)
            if isinstance(s, ast.AugAssign) and isinstance(s.target, ast.Name) and s.target.id in subst:
                op = BINOPS.get(type(s.op))
                if op in ("Add", "Sub", "Mul", "BitAnd", "BitOr", "BitXor"):
                    a, ab = subst[s.target.id]
                    b, bb = self._tr(s.value, subst)
                    return s.target.id, ("(EBin %s %s %s)" % (op, a, b), False)
            return None
        t = one(st.body)
        if t is None:
            return None
        name, (tv, tb) = t
        if st.orelse:
            e = one(st.orelse)
            if e is None or e[0] != name:
                return None
            ev, eb = e[1]
        else:
            if name not in subst:
                return None
            ev, eb = subst[name]
        return name, ("(EIf %s %s %s)" % (c, tv, ev), tb and eb)


def const_int(src, node):
    """integer literal (possibly negated / simple arithmetic of literals) -> int, else fail"""
    try:
        v = ast.literal_eval(node)
    except Exception:
        v = None
    if isinstance(v, bool) or not isinstance(v, int):
        # allow literal arithmetic such as 253 - 6
        try:
            v = eval(compile(ast.Expression(node), "<const>", "eval"), {"__builtins__": {}}, {})
        except Exception:
            v = None
    if isinstance(v, bool) or not isinstance(v, int):
        src.fail(node, "expected an integer constant: %s" % ast.unparse(node))
    return v


HEADER = """(* GENERATED by /verif/gen from /repo's current source on every run. Do not edit. *)
From PM.theories Require Import Base Expr.
Open Scope string_scope.
Open Scope Z_scope.
"""


def write_if_changed(path, text):
    try:
        with open(path) as f:
            if f.read() == text:
                return False
    except OSError:
        pass
    tmp = path + ".tmp%d" % os.getpid()
    with open(tmp, "w") as f:
        f.write(text)
    os.replace(tmp, path)
    return True
