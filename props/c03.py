"""C03 — built in two halves, see props/_split.py, props/fr_tcpascii.py, props/fr_rtubin.py"""
from props import _split
_split.build("C03", ["fr_tcpascii", "fr_rtubin"], globals())
