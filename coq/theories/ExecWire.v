(* ExecWire.v — the response PDU (function code byte + data) the Modbus Application Protocol
   prescribes for a spec-level response of ExecSpec.v: sections 6.1-6.6, 6.11, 6.12, 6.16, 6.17
   and 7 (exception responses).  Spec side only: used by the property oracle to judge the BYTES
   `bytes([fc]) + response.encode()` the server would send, not just the response object.
   No proofs in this file. *)
From PM.theories Require Import Base ExecSpec.
Open Scope list_scope.
Open Scope Z_scope.

Definition be16 (v : Z) : list Z := [v / 256; v mod 256].

(* eight statuses per byte, the first one in the least significant bit; the last byte zero padded *)
Fixpoint byte_of_bits (bs : list Z) (w : Z) : Z :=
  match bs with [] => 0 | b :: t => (if b =? 0 then 0 else w) + byte_of_bits t (2 * w) end.

Fixpoint pack_bits (fuel : nat) (bs : list Z) : list Z :=
  match fuel, bs with
  | O, _ | _, [] => []
  | S k, _ => byte_of_bits (firstn 8 bs) 1 :: pack_bits k (skipn 8 bs)
  end.

Definition spec_rsp_pdu (r : srsp) : list Z :=
  match r with
  | SRead fc vals =>
      if (fc =? 1) || (fc =? 2)
      then fc :: (Z.of_nat (length vals) + 7) / 8 :: pack_bits (length vals) vals
      else fc :: 2 * Z.of_nat (length vals) :: flat_map be16 vals
  | SEcho1 fc a v => fc :: be16 a ++ (if fc =? 5 then (if v =? 0 then [0; 0] else [255; 0]) else be16 v)
  | SEchoN fc a n => fc :: be16 a ++ be16 n
  | SMask a am om => 22 :: be16 a ++ be16 am ++ be16 om
  | SExc fc code => [fc; code]
  end.
