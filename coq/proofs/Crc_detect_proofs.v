(* Crc_detect_proofs.v — detection power of CRC-16/Modbus (spec side of theories/Crc.v).
   1. xor-linearity of the register;  2. residue form of the check;
   3. every odd-weight error is detected;  4. every 2-bit error in a frame shorter than
   32767 bits is detected;  5. every burst of at most 16 bits is detected.
   All finite checks are binary-recursive sweeps / one orbit walk run by vm_compute. *)
From Coq Require Import ZifyBool.
From PM.theories Require Import Base Crc.
Open Scope list_scope.
Open Scope N_scope.

(* ------------------------------------------------------------------ 0. basics *)

Definition mask (c : bool) : N := if c then crc_poly else 0.

Lemma odd_lxor a b : N.odd (N.lxor a b) = xorb (N.odd a) (N.odd b).
Proof. rewrite <- !N.bit0_odd. apply N.lxor_spec. Qed.

Lemma div2_lxor a b : N.div2 (N.lxor a b) = N.lxor (N.div2 a) (N.div2 b).
Proof. rewrite !N.div2_spec. apply N.shiftr_lxor. Qed.

Lemma crc_shift_alt s : crc_shift s = N.lxor (N.div2 s) (mask (N.odd s)).
Proof.
  unfold crc_shift, mask. rewrite N.div2_spec.
  destruct (N.odd s); [reflexivity | now rewrite N.lxor_0_r].
Qed.

Lemma mask_xorb a b : mask (xorb a b) = N.lxor (mask a) (mask b).
Proof. destruct a, b; reflexivity. Qed.

(* xor of four terms, middle two exchanged *)
Lemma lxor_swap4 a b c d : N.lxor (N.lxor a b) (N.lxor c d) = N.lxor (N.lxor a c) (N.lxor b d).
Proof.
  rewrite !N.lxor_assoc. f_equal. rewrite <- !N.lxor_assoc. f_equal. apply N.lxor_comm.
Qed.

(* ------------------------------------------------------------------ 1. linearity *)

Lemma crc_shift_lxor x y : crc_shift (N.lxor x y) = N.lxor (crc_shift x) (crc_shift y).
Proof.
  rewrite !crc_shift_alt, odd_lxor, div2_lxor, mask_xorb. apply lxor_swap4.
Qed.

Lemma crc_shift_0 : crc_shift 0 = 0.
Proof. reflexivity. Qed.

Lemma iter_shift_lxor n : forall x y,
  iter_shift n (N.lxor x y) = N.lxor (iter_shift n x) (iter_shift n y).
Proof.
  induction n as [|n IH]; intros x y; simpl; [reflexivity|].
  now rewrite crc_shift_lxor, IH.
Qed.

Lemma iter_shift_0 n : iter_shift n 0 = 0.
Proof. induction n; simpl; auto. Qed.

Lemma crc_byte_lxor s t a e :
  crc_byte (N.lxor s t) (N.lxor a e) = N.lxor (crc_byte s a) (crc_byte t e).
Proof. unfold crc_byte. now rewrite lxor_swap4, iter_shift_lxor. Qed.

Lemma crc_reg_lxor : forall a e s t, length e = length a ->
  crc_reg (N.lxor s t) (xor_bytes a e) = N.lxor (crc_reg s a) (crc_reg t e).
Proof.
  unfold crc_reg.
  induction a as [|x a IH]; intros [|y e] s t H; simpl in *; try discriminate; [reflexivity|].
  rewrite crc_byte_lxor. apply IH. congruence.
Qed.

Theorem crc_linear : forall a e s, length e = length a ->
  crc_reg s (xor_bytes a e) = N.lxor (crc_reg s a) (crc_reg 0 e).
Proof.
  intros a e s H. rewrite <- (crc_reg_lxor a e s 0 H). now rewrite N.lxor_0_r.
Qed.
Print Assumptions crc_linear.

(* ------------------------------------------------------------------ 3. odd weight *)

Definition par (n : N) : bool := Nat.odd (popcount n).

Lemma odd_S n : Nat.odd (S n) = negb (Nat.odd n).
Proof. rewrite Nat.odd_succ, <- Nat.negb_odd. reflexivity. Qed.

Lemma par_Ndouble n : par (Pos.Ndouble n) = par n.
Proof. destruct n; reflexivity. Qed.

Lemma par_Nsucc_double n : par (Pos.Nsucc_double n) = negb (par n).
Proof. destruct n; unfold par; simpl popcount; [reflexivity | apply odd_S]. Qed.

Lemma par_xI p : par (Npos p~1) = negb (par (Npos p)).
Proof. unfold par; simpl popcount. apply odd_S. Qed.

Lemma par_xO p : par (Npos p~0) = par (Npos p).
Proof. reflexivity. Qed.

Lemma par_pos_lxor : forall p q, par (Pos.lxor p q) = xorb (par (Npos p)) (par (Npos q)).
Proof.
  induction p as [p IH|p IH|]; intros [q|q|]; simpl Pos.lxor;
    rewrite ?par_Ndouble, ?par_Nsucc_double, ?par_xI, ?par_xO, ?IH;
    try reflexivity;
    try (destruct (par (Npos p)); try destruct (par (Npos q)); reflexivity);
    try (destruct (par (Npos q)); reflexivity).
Qed.

Lemma par_lxor a b : par (N.lxor a b) = xorb (par a) (par b).
Proof.
  destruct a as [|p], b as [|q]; simpl N.lxor.
  - reflexivity.
  - change (par 0) with false. now rewrite xorb_false_l.
  - change (par 0) with false. now rewrite xorb_false_r.
  - apply par_pos_lxor.
Qed.

Lemma par_div2 x : par (N.div2 x) = xorb (par x) (N.odd x).
Proof.
  destruct x as [|[p|p|]]; simpl N.div2; simpl N.odd;
    rewrite ?par_xI, ?par_xO; try reflexivity.
  all: try (destruct (par (Npos p)); reflexivity).
Qed.

Lemma par_mask c : par (mask c) = c.
Proof. destruct c; reflexivity. Qed.

(* the parity of the register is unchanged by a bit time, because crc_poly has odd weight *)
Lemma par_crc_shift s : par (crc_shift s) = par s.
Proof.
  rewrite crc_shift_alt, par_lxor, par_div2, par_mask.
  destruct (par s), (N.odd s); reflexivity.
Qed.

Lemma par_iter_shift n : forall s, par (iter_shift n s) = par s.
Proof. induction n; intros s; simpl; [reflexivity|]. now rewrite IHn, par_crc_shift. Qed.

Lemma par_crc_reg : forall e s, par (crc_reg s e) = xorb (par s) (Nat.odd (weight e)).
Proof.
  unfold crc_reg.
  induction e as [|b e IH]; intros s; simpl.
  - now rewrite xorb_false_r.
  - rewrite IH. unfold crc_byte. rewrite par_iter_shift, par_lxor, Nat.odd_add.
    fold (par b). now rewrite xorb_assoc.
Qed.

(* stronger than asked: no [wfb] needed *)
Lemma crc_reg0_odd' : forall e, Nat.odd (weight e) = true -> crc_reg 0 e <> 0%N.
Proof.
  intros e H E. pose proof (par_crc_reg e 0) as P. rewrite E, H in P. discriminate.
Qed.

Lemma crc_reg0_odd : forall e, wfb e = true -> Nat.odd (weight e) = true -> crc_reg 0 e <> 0%N.
Proof. intros e _. apply crc_reg0_odd'. Qed.

(* ------------------------------------------------------------------ 2. residue form *)

Lemma lt_pow2_shiftr s n : s < 2 ^ n <-> N.shiftr s n = 0.
Proof.
  rewrite N.shiftr_div_pow2. symmetry. apply N.div_small_iff.
  apply N.pow_nonzero. discriminate.
Qed.

Lemma lxor_lt_pow2 a b n : a < 2 ^ n -> b < 2 ^ n -> N.lxor a b < 2 ^ n.
Proof.
  rewrite !lt_pow2_shiftr, N.shiftr_lxor. intros -> ->. reflexivity.
Qed.

Lemma lxor_lt16 a b : a < 65536 -> b < 65536 -> N.lxor a b < 65536.
Proof. apply (lxor_lt_pow2 a b 16). Qed.

Lemma lxor_lt8 a b : a < 256 -> b < 256 -> N.lxor a b < 256.
Proof. apply (lxor_lt_pow2 a b 8). Qed.

Lemma div2_bound s : 2 * N.div2 s <= s.
Proof. pose proof (N.div2_odd s). destruct (N.odd s); simpl N.b2n in *; lia. Qed.

Lemma mask_lt16 c : mask c < 65536.
Proof. destruct c; reflexivity. Qed.

Lemma crc_shift_lt16 s : s < 65536 -> crc_shift s < 65536.
Proof.
  intros H. rewrite crc_shift_alt. apply lxor_lt16; [|apply mask_lt16].
  pose proof (div2_bound s). lia.
Qed.

Lemma iter_shift_lt16 n : forall s, s < 65536 -> iter_shift n s < 65536.
Proof. induction n; intros s H; simpl; auto using crc_shift_lt16. Qed.

(* bit 15 of the shifted register tells whether the polynomial was xored in *)
Lemma crc_shift_bit15 s : s < 65536 -> N.testbit (crc_shift s) 15 = N.odd s.
Proof.
  intros H. rewrite crc_shift_alt, N.lxor_spec.
  assert (D : N.div2 s < 2 ^ 15) by (pose proof (div2_bound s); change (2 ^ 15) with 32768; lia).
  apply lt_pow2_shiftr in D.
  assert (T : N.testbit (N.div2 s) 15 = false).
  { rewrite <- (N.add_0_l 15), <- N.shiftr_spec', D. apply N.bits_0. }
  rewrite T. destruct (N.odd s); reflexivity.
Qed.

Lemma crc_shift_inj x y : x < 65536 -> y < 65536 -> crc_shift x = crc_shift y -> x = y.
Proof.
  intros Hx Hy E.
  assert (O : N.odd x = N.odd y) by (rewrite <- !crc_shift_bit15 by assumption; now rewrite E).
  rewrite !crc_shift_alt, O in E.
  assert (D : N.div2 x = N.div2 y).
  { rewrite <- (N.lxor_0_r (N.div2 x)), <- (N.lxor_nilpotent (mask (N.odd y))),
      <- N.lxor_assoc, E, N.lxor_assoc, N.lxor_nilpotent. apply N.lxor_0_r. }
  rewrite (N.div2_odd x), (N.div2_odd y), O, D. reflexivity.
Qed.

Lemma iter_shift_inj n : forall x y, x < 65536 -> y < 65536 ->
  iter_shift n x = iter_shift n y -> x = y.
Proof.
  induction n as [|n IH]; intros x y Hx Hy E; simpl in E; [assumption|].
  apply crc_shift_inj; auto. apply IH; auto using crc_shift_lt16.
Qed.

Lemma iter_shift_nz n s : s < 65536 -> s <> 0 -> iter_shift n s <> 0.
Proof.
  intros H NZ E. apply NZ. apply (iter_shift_inj n); [assumption|reflexivity|].
  now rewrite iter_shift_0.
Qed.

Lemma crc_shift_double x : crc_shift (2 * x) = x.
Proof.
  rewrite crc_shift_alt.
  replace (N.odd (2 * x)) with false by (symmetry; rewrite N.odd_mul; reflexivity).
  change (2 * x) with (N.double x). rewrite N.div2_double. apply N.lxor_0_r.
Qed.

Lemma iter_shift8_mul256 h : iter_shift 8 (256 * h) = h.
Proof.
  replace (256 * h) with (2 * (2 * (2 * (2 * (2 * (2 * (2 * (2 * h)))))))) by lia.
  cbn [iter_shift]. now rewrite !crc_shift_double.
Qed.

Lemma byte_testbit_high b i : b < 256 -> 8 <= i -> N.testbit b i = false.
Proof.
  intros H L. apply (lt_pow2_shiftr b 8) in H.
  replace i with ((i - 8) + 8) by lia. rewrite <- N.shiftr_spec', H. apply N.bits_0.
Qed.

Lemma land_mul256 hi lo : lo < 256 -> N.land (256 * hi) lo = 0.
Proof.
  intros H. apply N.bits_inj. intros i. rewrite N.land_spec, N.bits_0.
  destruct (N.ltb_spec i 8) as [L|L].
  - replace (256 * hi) with (N.shiftl hi 8) by (rewrite N.shiftl_mul_pow2; change (2 ^ 8) with 256; lia).
    now rewrite N.shiftl_spec_low.
  - rewrite (byte_testbit_high lo i H L). apply andb_false_r.
Qed.

Lemma lxor_eq_iff a b c : N.lxor a b = c <-> a = N.lxor c b.
Proof.
  split; [intros <- | intros ->]; now rewrite N.lxor_assoc, N.lxor_nilpotent, N.lxor_0_r.
Qed.

Lemma crc_byte_zero s b : N.lxor s b < 65536 -> crc_byte s b = 0 -> N.lxor s b = 0.
Proof.
  unfold crc_byte. generalize (N.lxor s b). intros x H E.
  apply (iter_shift_inj 8 x 0 H); [lia|]. rewrite iter_shift_0. exact E.
Qed.

Lemma crc_byte_eq_byte s b h : N.lxor s b < 65536 -> h < 256 ->
  crc_byte s b = h -> N.lxor s b = 256 * h.
Proof.
  unfold crc_byte. generalize (N.lxor s b). intros x H Hh E.
  apply (iter_shift_inj 8 x (256 * h) H); [lia|]. rewrite iter_shift8_mul256. exact E.
Qed.

Lemma crc_byte_mul256 s b h : N.lxor s b = 256 * h -> crc_byte s b = h.
Proof. unfold crc_byte. intros ->. apply iter_shift8_mul256. Qed.

Lemma crc_byte_lt16 s b : s < 65536 -> b < 256 -> crc_byte s b < 65536.
Proof.
  intros Hs Hb. unfold crc_byte. apply iter_shift_lt16. apply lxor_lt16; [exact Hs|lia].
Qed.

(* two byte times: the register is cleared exactly by its own value, low byte first *)
Lemma crc_byte2_zero r lo hi : r < 65536 -> lo < 256 -> hi < 256 ->
  (crc_byte (crc_byte r lo) hi = 0 <-> r = lo + 256 * hi).
Proof.
  intros Hr Hlo Hhi.
  assert (B1 : N.lxor r lo < 65536) by (apply lxor_lt16; [exact Hr|lia]).
  pose proof (crc_byte_lt16 r lo Hr Hlo) as B2.
  assert (S : lo + 256 * hi = N.lxor (256 * hi) lo).
  { rewrite N.add_comm. apply N.add_nocarry_lxor, land_mul256, Hlo. }
  rewrite S, <- lxor_eq_iff. clear S.
  split.
  - intros E.
    remember (crc_byte r lo) as c eqn:Hc.
    assert (B3 : N.lxor c hi < 65536) by (apply lxor_lt16; [exact B2|lia]).
    pose proof (crc_byte_zero c hi B3 E) as E1.
    apply lxor_eq_iff in E1. rewrite N.lxor_0_l in E1. subst c.
    exact (crc_byte_eq_byte r lo hi B1 Hhi E1).
  - intros E. rewrite (crc_byte_mul256 r lo hi E).
    apply crc_byte_mul256. rewrite N.lxor_nilpotent. lia.
Qed.

Lemma crc_reg_lt16 : forall bs s, s < 65536 -> wfb bs = true -> crc_reg s bs < 65536.
Proof.
  unfold crc_reg.
  induction bs as [|b bs IH]; intros s H W; simpl in *; [assumption|].
  apply andb_true_iff in W. destruct W as [Wb W]. unfold byteb in Wb.
  apply IH; [|assumption]. apply crc_byte_lt16; lia.
Qed.

Lemma crc_reg_app s a b : crc_reg s (a ++ b) = crc_reg (crc_reg s a) b.
Proof. apply fold_left_app. Qed.

Lemma crc_residue : forall body lo hi s, (s < 65536)%N -> wfb body = true ->
  (lo < 256)%N -> (hi < 256)%N ->
  (crc_reg s (body ++ [lo; hi]) = 0%N <-> crc_reg s body = (lo + 256 * hi)%N).
Proof.
  intros body lo hi s Hs W Hlo Hhi. rewrite crc_reg_app.
  change (crc_reg (crc_reg s body) [lo; hi]) with (crc_byte (crc_byte (crc_reg s body) lo) hi).
  apply crc_byte2_zero; auto using crc_reg_lt16.
Qed.

Lemma wfb_app a b : wfb (a ++ b) = wfb a && wfb b.
Proof. apply forallb_app. Qed.

Lemma crc_ok_residue : forall frame, wfb frame = true ->
  (crc_ok frame = true <-> (2 <= length frame)%nat /\ crc_reg 65535 frame = 0%N).
Proof.
  intros frame W. unfold crc_ok, crc16_bitwise.
  set (n := length frame).
  pose proof (firstn_skipn (n - 2) frame) as FS.
  destruct (Nat.leb_spec 2 n) as [L|L].
  - assert (LS : length (skipn (n - 2) frame) = 2%nat) by (rewrite skipn_length; fold n; lia).
    destruct (skipn (n - 2) frame) as [|lo [|hi [|? ?]]]; try discriminate LS.
    rewrite <- FS in W. rewrite wfb_app in W. apply andb_true_iff in W. destruct W as [W1 W2].
    simpl in W2. unfold byteb in W2.
    rewrite <- FS at 2. rewrite crc_residue by (try assumption; lia).
    rewrite andb_true_l, N.eqb_eq. tauto.
  - split; [|lia]. intros H. exfalso.
    destruct (skipn (n - 2) frame) as [|lo [|hi [|? ?]]]; discriminate H.
Qed.

Lemma xor_bytes_length : forall a e, length (xor_bytes a e) = length a.
Proof. induction a; intros [|y e]; simpl; auto. Qed.

Lemma wfb_xor_bytes : forall a e, wfb a = true -> wfb e = true -> wfb (xor_bytes a e) = true.
Proof.
  induction a as [|x a IH]; intros [|y e] Wa We; simpl in *; auto.
  apply andb_true_iff in Wa. apply andb_true_iff in We.
  destruct Wa as [Hx Wa], We as [Hy We]. unfold byteb in *.
  apply andb_true_iff. split; [|auto].
  pose proof (lxor_lt8 x y). lia.
Qed.

Lemma crc_detect_iff : forall frame e, wfb frame = true -> wfb e = true ->
  length e = length frame -> crc_ok frame = true ->
  (crc_ok (xor_bytes frame e) = true <-> crc_reg 0 e = 0%N).
Proof.
  intros frame e Wf We L OK.
  apply crc_ok_residue in OK; [|assumption]. destruct OK as [L2 R].
  rewrite crc_ok_residue by (apply wfb_xor_bytes; assumption).
  rewrite xor_bytes_length, crc_linear, R, N.lxor_0_l by assumption. tauto.
Qed.

Lemma crc_detected frame e : wfb frame = true -> wfb e = true ->
  length e = length frame -> crc_ok frame = true -> crc_reg 0 e <> 0 ->
  crc_ok (xor_bytes frame e) = false.
Proof.
  intros Wf We L OK NZ. destruct (crc_ok (xor_bytes frame e)) eqn:E; [|reflexivity].
  apply crc_detect_iff in E; auto. contradiction.
Qed.

Theorem crc_odd_detected : forall frame e, wfb frame = true -> wfb e = true ->
  length e = length frame -> crc_ok frame = true -> Nat.odd (weight e) = true ->
  crc_ok (xor_bytes frame e) = false.
Proof. intros. apply crc_detected; auto using crc_reg0_odd. Qed.
Print Assumptions crc_odd_detected.

Theorem crc_single_detected : forall frame e, wfb frame = true -> wfb e = true ->
  length e = length frame -> crc_ok frame = true -> weight e = 1%nat ->
  crc_ok (xor_bytes frame e) = false.
Proof. intros frame e Wf We L OK H. apply crc_odd_detected; auto. now rewrite H. Qed.
Print Assumptions crc_single_detected.

(* ------------------------------------------------------------------ bit-serial view *)

(* one bit time with input bit [c] *)
Definition feed (s : N) (c : bool) : N := crc_shift (N.lxor s (N.b2n c)).
Definition feed_bits (s : N) (l : list bool) : N := fold_left feed l s.

Lemma feed_bits_app s a b : feed_bits s (a ++ b) = feed_bits (feed_bits s a) b.
Proof. apply fold_left_app. Qed.

Lemma feed_false s : feed s false = crc_shift s.
Proof. unfold feed. simpl N.b2n. now rewrite N.lxor_0_r. Qed.

Lemma feed_true s : feed s true = N.lxor (crc_shift s) crc_poly.
Proof. unfold feed. rewrite crc_shift_lxor. reflexivity. Qed.

Lemma feed_lt16 s c : s < 65536 -> feed s c < 65536.
Proof.
  intros H. unfold feed. apply crc_shift_lt16, lxor_lt16; [exact H|]. destruct c; reflexivity.
Qed.

Lemma feed_bits_lt16 l : forall s, s < 65536 -> feed_bits s l < 65536.
Proof.
  unfold feed_bits. induction l as [|c l IH]; intros s H; simpl; [exact H|].
  apply IH, feed_lt16, H.
Qed.

Lemma feed_bits_zeros n : forall s, feed_bits s (repeat false n) = iter_shift n s.
Proof.
  unfold feed_bits. induction n as [|n IH]; intros s; simpl; [reflexivity|].
  now rewrite feed_false, IH.
Qed.

Lemma div2_b2n c : N.div2 (N.b2n c) = 0.
Proof. destruct c; reflexivity. Qed.

Lemma odd_b2n c : N.odd (N.b2n c) = c.
Proof. destruct c; reflexivity. Qed.

(* absorbing a k-bit value into the register = feeding its bits, LSB first *)
Lemma crc_shift_split s b :
  crc_shift (N.lxor s b) = N.lxor (feed s (N.odd b)) (N.div2 b).
Proof.
  unfold feed. rewrite !crc_shift_alt, !odd_lxor, !div2_lxor, odd_b2n, div2_b2n, N.lxor_0_r.
  rewrite !N.lxor_assoc. f_equal. apply N.lxor_comm.
Qed.

Lemma iter_shift_bits k : forall s b, b < 2 ^ N.of_nat k ->
  iter_shift k (N.lxor s b) = feed_bits s (byte_bits k b).
Proof.
  unfold feed_bits.
  induction k as [|k IH]; intros s b H.
  - simpl in *. assert (b = 0) by lia. subst b. apply N.lxor_0_r.
  - cbn [iter_shift byte_bits fold_left]. rewrite crc_shift_split. apply IH.
    rewrite Nat2N.inj_succ, N.pow_succ_r' in H.
    pose proof (N.div2_odd b). destruct (N.odd b); simpl N.b2n in *; lia.
Qed.

Lemma crc_byte_bits s b : b < 256 -> crc_byte s b = feed_bits s (byte_bits 8 b).
Proof. intros H. unfold crc_byte. apply iter_shift_bits. exact H. Qed.

Lemma crc_reg_bits : forall e s, wfb e = true -> crc_reg s e = feed_bits s (bits_of e).
Proof.
  induction e as [|b e IH]; intros s W; [reflexivity|].
  simpl in W. apply andb_true_iff in W. destruct W as [Wb W]. unfold byteb in Wb.
  change (bits_of (b :: e)) with (byte_bits 8 b ++ bits_of e).
  rewrite feed_bits_app. change (crc_reg s (b :: e)) with (crc_reg (crc_byte s b) e).
  rewrite IH by exact W. f_equal. apply crc_byte_bits. lia.
Qed.

Lemma byte_bits_length k : forall b, length (byte_bits k b) = k.
Proof. induction k; intros b; simpl; auto. Qed.

Lemma bits_of_length : forall e, length (bits_of e) = (8 * length e)%nat.
Proof.
  induction e as [|b e IH]; [reflexivity|].
  change (bits_of (b :: e)) with (byte_bits 8 b ++ bits_of e).
  rewrite app_length, byte_bits_length, IH. simpl length. lia.
Qed.

(* number of set bits of a bit string *)
Fixpoint count (l : list bool) : nat :=
  match l with [] => O | c :: t => ((if c then 1 else 0) + count t)%nat end.

Lemma count_app a b : count (a ++ b) = (count a + count b)%nat.
Proof. induction a as [|c a IH]; simpl; [reflexivity|]. rewrite IH. lia. Qed.

Lemma popcount_div2 b : popcount b = ((if N.odd b then 1 else 0) + popcount (N.div2 b))%nat.
Proof. destruct b as [|[p|p|]]; reflexivity. Qed.

Lemma count_byte_bits k : forall b, b < 2 ^ N.of_nat k -> count (byte_bits k b) = popcount b.
Proof.
  induction k as [|k IH]; intros b H.
  - simpl in *. assert (b = 0) by lia. subst b. reflexivity.
  - cbn [byte_bits count]. rewrite (popcount_div2 b). f_equal. apply IH.
    rewrite Nat2N.inj_succ, N.pow_succ_r' in H.
    pose proof (N.div2_odd b). destruct (N.odd b); simpl N.b2n in *; lia.
Qed.

Lemma count_bits_of : forall e, wfb e = true -> count (bits_of e) = weight e.
Proof.
  induction e as [|b e IH]; intros W; [reflexivity|].
  simpl in W. apply andb_true_iff in W. destruct W as [Wb W]. unfold byteb in Wb.
  change (bits_of (b :: e)) with (byte_bits 8 b ++ bits_of e).
  rewrite count_app, IH by exact W. simpl weight. f_equal.
  apply (count_byte_bits 8). change (2 ^ N.of_nat 8) with 256. lia.
Qed.

Lemma count_0 : forall l, count l = O -> l = repeat false (length l).
Proof.
  induction l as [|c l IH]; intros H; [reflexivity|]. simpl in *.
  destruct c; [discriminate|]. f_equal. apply IH. exact H.
Qed.

Lemma count_S : forall l n, count l = S n ->
  exists i l', l = repeat false i ++ true :: l' /\ count l' = n.
Proof.
  induction l as [|c l IH]; intros n H; [discriminate|]. simpl in H. destruct c.
  - exists O, l. split; [reflexivity|]. simpl in H. congruence.
  - destruct (IH n H) as (i & l' & -> & C). exists (S i), l'. split; [reflexivity|exact C].
Qed.

(* ------------------------------------------------------------------ 4. double-bit errors *)

Lemma iter_shift_comm n : forall s, iter_shift n (crc_shift s) = crc_shift (iter_shift n s).
Proof. induction n as [|n IH]; intros s; simpl; [reflexivity|]. apply IH. Qed.

Lemma iter_shift_add n m s : iter_shift (n + m) s = iter_shift m (iter_shift n s).
Proof. revert s. induction n as [|n IH]; intros s; simpl; [reflexivity|]. apply IH. Qed.

Lemma iter_shift_N n s : iter_shift (N.to_nat n) s = N.iter n crc_shift s.
Proof.
  induction n as [|n IH] using N.peano_ind; [reflexivity|].
  rewrite N2Nat.inj_succ, N.iter_succ, <- IH. cbn [iter_shift]. apply iter_shift_comm.
Qed.

(* orbit walk: [n] steps from [start], remembering whether [start] was met again *)
Definition walk_step (start : N) (st : N * bool) : N * bool :=
  let s := crc_shift (fst st) in (s, snd st && negb (s =? start)).
Definition walk (start n : N) : N * bool := N.iter n (walk_step start) (start, true).

Lemma walk_fst start n : fst (walk start n) = N.iter n crc_shift start.
Proof.
  unfold walk. induction n as [|n IH] using N.peano_ind; [reflexivity|].
  rewrite !N.iter_succ. unfold walk_step at 1. cbn [fst]. now rewrite IH.
Qed.

Lemma walk_sound start n : snd (walk start n) = true ->
  forall k, 0 < k <= n -> N.iter k crc_shift start <> start.
Proof.
  unfold walk. induction n as [|n IH] using N.peano_ind; intros H k Hk; [lia|].
  rewrite N.iter_succ in H. unfold walk_step at 1 in H. cbn [snd] in H.
  apply andb_true_iff in H. destruct H as [H1 H2].
  destruct (N.eq_dec k (N.succ n)) as [->|NE].
  - fold (walk start n) in H2. rewrite walk_fst, <- N.iter_succ in H2.
    apply negb_true_iff, N.eqb_neq in H2. exact H2.
  - apply IH; [exact H1|lia].
Qed.

Lemma walk_40961 : snd (walk 40961 32766) = true.
Proof. vm_compute. reflexivity. Qed.

(* the state reached after a single 1 bit does not recur for 32766 bit times *)
Lemma orbit_40961 d : (0 < d)%nat -> N.of_nat d < 32767 -> iter_shift d 40961 <> 40961.
Proof.
  intros H0 H. rewrite <- (Nat2N.id d), iter_shift_N.
  apply (walk_sound 40961 32766 walk_40961). lia.
Qed.

Lemma feed_bits_two i m k :
  N.of_nat (S m) < 32767 ->
  feed_bits 0 (repeat false i ++ true :: repeat false m ++ true :: repeat false k) <> 0.
Proof.
  intros H.
  rewrite feed_bits_app, feed_bits_zeros, iter_shift_0.
  change (feed_bits 0 (true :: repeat false m ++ true :: repeat false k))
    with (feed_bits 40961 (repeat false m ++ true :: repeat false k)).
  rewrite feed_bits_app, feed_bits_zeros.
  change (feed_bits (iter_shift m 40961) (true :: repeat false k))
    with (feed_bits (feed (iter_shift m 40961) true) (repeat false k)).
  rewrite feed_bits_zeros, feed_true, <- iter_shift_comm.
  change (iter_shift m (crc_shift 40961)) with (iter_shift (S m) 40961).
  change crc_poly with 40961.
  assert (B : iter_shift (S m) 40961 < 65536) by (apply iter_shift_lt16; reflexivity).
  apply iter_shift_nz.
  - apply lxor_lt16; [exact B|reflexivity].
  - intros E. apply lxor_eq_iff in E. rewrite N.lxor_0_l in E.
    revert E. apply orbit_40961; [lia|exact H].
Qed.

Lemma crc_reg0_double : forall e, wfb e = true -> weight e = 2%nat ->
  (8 * N.of_nat (length e) < 32767)%N -> crc_reg 0 e <> 0%N.
Proof.
  intros e W H2 L. rewrite crc_reg_bits by exact W.
  pose proof (bits_of_length e) as BL. rewrite <- count_bits_of in H2 by exact W.
  destruct (count_S _ _ H2) as (i & l1 & E1 & C1).
  destruct (count_S _ _ C1) as (m & l2 & E2 & C2).
  apply count_0 in C2. rewrite E1, E2, C2 in *.
  apply feed_bits_two.
  rewrite !app_length, !repeat_length in BL. cbn [length] in BL.
  rewrite !app_length, !repeat_length in BL. cbn [length] in BL. lia.
Qed.

Theorem crc_double_detected : forall frame e, wfb frame = true -> wfb e = true ->
  length e = length frame -> crc_ok frame = true -> weight e = 2%nat ->
  (8 * N.of_nat (length frame) < 32767)%N -> crc_ok (xor_bytes frame e) = false.
Proof.
  intros frame e Wf We L OK H2 HL. apply crc_detected; auto.
  apply crc_reg0_double; auto. now rewrite L.
Qed.
Print Assumptions crc_double_detected.

(* ------------------------------------------------------------------ 5. bursts up to 16 bits *)

Lemma first_set_decomp : forall l i, first_set l = Some i ->
  exists A, l = repeat false i ++ true :: A.
Proof.
  induction l as [|c l IH]; intros i H; [discriminate|]. simpl in H. destruct c.
  - injection H as <-. exists l. reflexivity.
  - destruct (first_set l) as [i'|]; [|discriminate]. injection H as <-.
    destruct (IH i' eq_refl) as (A & ->). exists A. reflexivity.
Qed.

Lemma rev_repeat_false n : rev (repeat false n) = repeat false n.
Proof.
  induction n as [|n IH]; [reflexivity|]. simpl. rewrite IH.
  clear IH. induction n as [|n IH]; [reflexivity|]. simpl. now rewrite IH.
Qed.

Lemma last_set_decomp l j : last_set l = Some j ->
  exists B k, l = B ++ true :: repeat false k /\ length B = j.
Proof.
  unfold last_set. destruct (first_set (rev l)) as [i|] eqn:F; [|discriminate].
  intros H. injection H as <-.
  destruct (first_set_decomp _ _ F) as (A & E).
  apply (f_equal (@rev bool)) in E. rewrite rev_involutive, rev_app_distr in E.
  cbn [rev] in E. rewrite rev_repeat_false, <- app_assoc in E. cbn [app] in E.
  exists (rev A), i. split; [exact E|].
  rewrite E, app_length. cbn [length]. rewrite repeat_length. lia.
Qed.

Lemma burst_shape l i j A B k :
  l = repeat false i ++ true :: A -> l = B ++ true :: repeat false k -> length B = j ->
  (j - i + 1 <= 16)%nat ->
  exists w k', A = w ++ repeat false k' /\ (length w <= 15)%nat.
Proof.
  intros E1 E2 LB H.
  destruct (Nat.lt_ge_cases j i) as [Lt|Ge].
  - exfalso.
    assert (N1 : nth j l false = false).
    { rewrite E1, app_nth1 by (rewrite repeat_length; exact Lt). apply nth_repeat. }
    assert (N2 : nth j l false = true).
    { rewrite E2, app_nth2 by lia. replace (j - length B)%nat with O by lia. reflexivity. }
    congruence.
  - assert (S1 : skipn (S i) l = A).
    { rewrite E1. change (true :: A) with ([true] ++ A). rewrite app_assoc, skipn_app.
      rewrite skipn_all2 by (rewrite app_length, repeat_length; simpl; lia).
      rewrite app_length, repeat_length. cbn [length].
      replace (S i - (i + 1))%nat with O by lia. reflexivity. }
    rewrite E2, skipn_app, LB in S1.
    destruct (Nat.eq_dec i j) as [->|NE].
    + rewrite skipn_all2 in S1 by lia. replace (S j - j)%nat with 1%nat in S1 by lia.
      cbn [skipn app] in S1. exists [], k. split; [now rewrite <- S1|simpl; lia].
    + replace (S i - j)%nat with O in S1 by lia. cbn [skipn] in S1.
      exists (skipn (S i) B ++ [true]), k. split.
      * rewrite <- S1, <- app_assoc. reflexivity.
      * rewrite app_length, skipn_length. cbn [length]. lia.
Qed.

(* every bit string of length <= d fed into [s] leaves a non-zero register *)
Fixpoint all_lists (d : nat) (s : N) : bool :=
  negb (s =? 0) &&
  match d with
  | O => true
  | S d' => all_lists d' (feed s false) && all_lists d' (feed s true)
  end.

Lemma all_lists_sound d : forall s, all_lists d s = true ->
  forall w, (length w <= d)%nat -> feed_bits s w <> 0.
Proof.
  induction d as [|d IH]; intros s H w L; cbn [all_lists] in H;
    apply andb_true_iff in H; destruct H as [H0 H].
  - destruct w; [|simpl in L; lia]. simpl. apply negb_true_iff, N.eqb_neq in H0. exact H0.
  - destruct w as [|c w].
    + simpl. apply negb_true_iff, N.eqb_neq in H0. exact H0.
    + apply andb_true_iff in H. destruct H as [Hf Ht].
      change (feed_bits s (c :: w)) with (feed_bits (feed s c) w).
      simpl in L. destruct c; apply IH; auto; lia.
Qed.

Lemma sweep_burst16 : all_lists 15 40961 = true.
Proof. vm_compute. reflexivity. Qed.

Lemma feed_bits_burst i w k : (length w <= 15)%nat ->
  feed_bits 0 (repeat false i ++ true :: w ++ repeat false k) <> 0.
Proof.
  intros L. rewrite feed_bits_app, feed_bits_zeros, iter_shift_0.
  change (feed_bits 0 (true :: w ++ repeat false k))
    with (feed_bits 40961 (w ++ repeat false k)).
  rewrite feed_bits_app, feed_bits_zeros.
  apply iter_shift_nz.
  - apply feed_bits_lt16. reflexivity.
  - apply (all_lists_sound 15 40961 sweep_burst16 w L).
Qed.

Lemma crc_reg0_burst16 : forall e, wfb e = true -> (0 < burst_len e <= 16)%nat ->
  crc_reg 0 e <> 0%N.
Proof.
  intros e W H. rewrite crc_reg_bits by exact W. unfold burst_len in H.
  destruct (first_set (bits_of e)) as [i|] eqn:F; [|lia].
  destruct (last_set (bits_of e)) as [j|] eqn:La; [|lia].
  destruct (first_set_decomp _ _ F) as (A & E1).
  destruct (last_set_decomp _ _ La) as (B & k & E2 & LB).
  destruct (burst_shape _ i j A B k E1 E2 LB) as (w & k' & EA & Lw); [lia|].
  rewrite E1, EA. apply feed_bits_burst, Lw.
Qed.

Theorem crc_burst16_detected : forall frame e, wfb frame = true -> wfb e = true ->
  length e = length frame -> crc_ok frame = true -> (0 < burst_len e <= 16)%nat ->
  crc_ok (xor_bytes frame e) = false.
Proof. intros. apply crc_detected; auto using crc_reg0_burst16. Qed.
Print Assumptions crc_burst16_detected.
