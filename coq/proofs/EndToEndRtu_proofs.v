(* EndToEndRtu_proofs.v — composition proof for the SERIAL server path with RTU framing.
   The RTU half of the framer development speaks another vocabulary (FrBCommon.dres / delivered /
   fexit / fcfg, frames as (accepted?, (unit, PDU)), feeding as [rtu_feed_dels]); the adapters are
     [rtu_validate]      its unit filter = FrSpecA.spec_accepts (the one C06_tcp/C06_ascii use)
     [rtu_request_size]  every data-access request has a prefix-stable, correct frame-size rule in the
                         GENERATED server decoder table (C03_rtu_size_oracle) — also needed for frames
                         that are only to be skipped
     [item_vf]           an item of the stream is a [valid_frame] of C06_rtu
     [feed_of_dels]      rtu_feed_dels with all exits FOk = FrBaseA.feed of the handler-wrapped receiver
     [rtu_pk_ok]         C01_encode_conforms + C03_build_rtu. *)
From PM.theories Require Import Base Expr Struct FrBaseA FrSpecA PduCls PduSpec Pdu CorrPdu Store Exec ExecSpec Server
                                EndToEnd EndToEndSerial CorrE2E CorrE2ESerial.
From PM.theories Require FrBCode Crc FrBCommon FrRtu FrSpecB.
From PM.Generated Require Import GenFramerA GenPdu.
From PM.Generated Require GenStore GenExec GenServer GenFramerB.
From PM.proofs Require Import Pdu_proofs Exec_proofs Server_proofs
                              EndToEnd_adapt_proofs EndToEnd_spec_proofs EndToEnd_proofs EndToEndSerial_proofs.
From PM.proofs Require FrB_rtu_proofs.
From PM.Props Require C01 C03_rtubin C06_rtubin.
From Coq Require Import ZifyBool.
Open Scope string_scope.
Open Scope list_scope.
Open Scope Z_scope.

Module R := FrB_rtu_proofs.

(* ================================================================== the unit filter *)
Lemma rtu_validate c uid b : c_single c = Some b ->
  FrBCommon.validate_unit (rtu_fcfg c) (Some uid) = Ok (spec_accepts KAscii c uid).
Proof.
  intros H. unfold FrBCommon.validate_unit, rtu_fcfg, spec_accepts, FrSpecA.spec_single.
  cbn [FrBCommon.cf_single FrBCommon.cf_units]. rewrite H. destruct b; [reflexivity|]. cbn [orb]. unfold FrBaseA.zmem.
  destruct (existsb (Z.eqb 0) (c_units c)); [reflexivity|]. destruct (existsb (Z.eqb 255) (c_units c)); reflexivity.
Qed.

(* ================================================================== frame sizes of the ten request kinds *)
Ltac eval_rule :=
  match goal with |- context [FrBCommon.lookup_rule ?d ?k] =>
    let r := eval vm_compute in (FrBCommon.lookup_rule d k) in change (FrBCommon.lookup_rule d k) with r end.

Lemma zb_to_N v : 0 <= v -> FrBCommon.zb (Z.to_N v) = v.
Proof. intros H. unfold FrBCommon.zb. lia. Qed.

Lemma rtu_request_size m w u : wreq_of_msg m = Some w -> spec_wf m = true -> wfb (u :: spec_pdu m) = true ->
  exists fc data, spec_pdu m = fc :: data /\
    R.simple_rule (FrBCommon.lookup_rule GenFramerB.server_decoder (FrBCommon.zb fc)) = true /\
    FrBCommon.frame_size (FrBCommon.lookup_rule GenFramerB.server_decoder (FrBCommon.zb fc)) (FrSpecB.spec_adu_rtu u (spec_pdu m))
      = Ok (FrBCommon.zlen (FrSpecB.spec_adu_rtu u (spec_pdu m))).
Proof.
  intros Hw Hwf Hb. destruct (R.spec_adu_rtu_shape u (spec_pdu m) Hb) as (lo & hi & Esh & _). rewrite Esh. clear Esh Hb.
  destruct m; unfold wreq_of_msg in Hw; try discriminate Hw; clear Hw; cbn [spec_pdu]; eexists; eexists; (split; [reflexivity|]);
    eval_rule; (split; [reflexivity|]).
  1-4: cbn [FrBCommon.frame_size]; unfold FrBCommon.zlen, u16; cbn [app length]; reflexivity.
  - cbn [FrBCommon.frame_size]. unfold FrBCommon.zlen, u16. destruct on; cbn [on_word app length]; reflexivity.
  - cbn [FrBCommon.frame_size]; unfold FrBCommon.zlen, u16; cbn [app length]; reflexivity.
  - (* FC15: byte count at frame position 6 *)
    cbn [spec_wf] in Hwf. split_andb Hwf. apply C03_rtubin.C03_rtu_size_oracle. right.
    exists 6, (Z.to_N (bit_byte_count (len coils))). split; [reflexivity|]. split; [lia|]. split; [reflexivity|].
    unfold is_u8 in Hwf0. rewrite zb_to_N by lia. unfold FrBCommon.zlen, u16, u8. cbn [app length]. rewrite app_length.
    destruct (C01.C01_bitpack_shape coils) as (_ & Hl & _). cbn [length]. unfold len in *. lia.
  - (* FC16 *)
    cbn [spec_wf] in Hwf. split_andb Hwf. apply C03_rtubin.C03_rtu_size_oracle. right.
    exists 6, (Z.to_N (2 * len regs)). split; [reflexivity|]. split; [lia|]. split; [reflexivity|].
    unfold is_u8 in Hwf1. rewrite zb_to_N by lia. unfold FrBCommon.zlen, u16, u8. cbn [app length]. rewrite app_length, words_length.
    cbn [length]. unfold len in *. lia.
  - cbn [FrBCommon.frame_size]; unfold FrBCommon.zlen, u16; cbn [app length]; reflexivity.
  - (* FC23: byte count at frame position 10 *)
    cbn [spec_wf] in Hwf. split_andb Hwf. apply C03_rtubin.C03_rtu_size_oracle. right.
    exists 10, (Z.to_N (2 * len wregs)). split; [reflexivity|]. split; [lia|]. split; [reflexivity|].
    match goal with H : is_u8 _ = true |- _ => unfold is_u8 in H end. rewrite zb_to_N by lia.
    unfold FrBCommon.zlen, u16, u8. cbn [app length]. rewrite app_length, words_length. cbn [length]. unfold len in *. lia.
Qed.

(* ================================================================== items of an RTU stream *)
(* a request FC 1-6/15/16/22/23 to a served unit, or a request frame of the same ten kinds that the
   unit filter rejects (the receiver must know the size of a frame even to skip it) *)
Definition rtu_item_ok (sk : skel) (cfg : scfg) (hosted : list Z) (fc : FrBaseA.cfg) (q : e2e_req) : Prop :=
  0 <= q_uid q < 256 /\ wfb (sreq_pdu (q_body q)) = true /\
  (exists m w, q_body q = QMsg m /\ wreq_of_msg m = Some w /\ spec_wf m = true) /\
  ((0 <= q_tid q < 65536 /\ 0 <= q_pid q < 65536 /\ served sk cfg hosted (q_uid q)) \/
   spec_accepts KAscii fc (q_uid q) = false).

Lemma rtu_item_item sk cfg hosted fc q : rtu_item_ok sk cfg hosted fc q -> item_ok KAscii sk cfg hosted fc q.
Proof.
  intros (Hu & Hb & (m & w & Hbody & Hw & Hwf) & [(Ht & Hp & Hs)|Hrej]).
  - left. split; [|exact Hb]. repeat split; try lia; try apply Hs. exists w. rewrite Hbody. split; assumption.
  - right. split; [|exact Hrej]. cbn [frame_wf]. unfold ascii_wf, frame_of. cbn [f_uid f_pdu].
    pose proof (request_pdu_length m w Hw Hwf) as Hl. rewrite Hbody in *. cbn [sreq_pdu] in *. repeat split; try lia; exact Hb.
Qed.

Definition rtu_frame (fc : FrBaseA.cfg) (q : e2e_req) : R.frame :=
  (spec_accepts KAscii fc (q_uid q), (Z.to_N (q_uid q), sreq_pdu (q_body q))).

Lemma is_msg_rtu pdu : is_msg (e2e_dec pdu) = true -> rtu_dec pdu = FrBCommon.DMsg.
Proof. unfold rtu_dec. destruct (e2e_dec pdu); [reflexivity|discriminate|discriminate]. Qed.

Lemma item_vf sk cfg l q :
  rtu_item_ok sk cfg (u_keys slavectx l) (framer_cfg sk cfg l) q ->
  R.vf (rtu_fcfg (framer_cfg sk cfg l)) (rtu_frame (framer_cfg sk cfg l) q).
Proof.
  intros (Hu & Hb & (m & w & Hbody & Hw & Hwf) & Hcase).
  assert (Hub : wfb (Z.to_N (q_uid q) :: sreq_pdu (q_body q)) = true).
  { cbn [wfb forallb]. fold (wfb (sreq_pdu (q_body q))). rewrite Hb. unfold byteb. lia. }
  unfold R.vf, rtu_frame. cbn [fst snd]. constructor.
  - exact Hub.
  - intros Hacc. apply is_msg_rtu. rewrite Hbody. cbn [sreq_pdu]. apply (dec_body_msg (QMsg m) w). split; assumption.
  - rewrite zb_to_N by lia. exact (rtu_validate (framer_cfg sk cfg l) (q_uid q) (cf_single cfg) eq_refl).
  - rewrite Hbody in *. cbn [sreq_pdu] in *. exact (rtu_request_size m w _ Hw Hwf Hub).
Qed.

Lemma rtu_stream fc qs : R.stream (map (rtu_frame fc) qs) = concat (map req_adu_rtu qs).
Proof. induction qs as [|q t IH]; [reflexivity|]. unfold R.stream in *. cbn [map flat_map concat]. now rewrite IH. Qed.

Lemma rtu_msgs fc qs : Forall (fun q => 0 <= q_uid q) qs ->
  map rtu_delivery (R.msgs (map (rtu_frame fc) qs)) = ref_deliveries KAscii fc (map frame_of qs).
Proof.
  induction 1 as [|q t Hq Ht IH]; [reflexivity|]. unfold R.msgs, ref_deliveries in *. cbn [map flat_map filter].
  change (f_uid (frame_of q)) with (q_uid q). unfold R.msg_of at 1, rtu_frame at 1. cbn [fst snd].
  destruct (spec_accepts KAscii fc (q_uid q)); [|exact IH].
  cbn [app map]. rewrite IH. unfold rtu_delivery at 1, spec_delivery at 1, frame_of at 1, rtu_frame. cbn [fst snd f_pdu f_uid].
  rewrite zb_to_N by exact Hq. reflexivity.
Qed.

(* ================================================================== feeding *)
Lemma feed_of_dels c : forall chunks st ds,
  R.rtu_feed_dels (rtu_fcfg c) st chunks = (ds, map (fun _ => FrBCommon.FOk) chunks) ->
  exists st', feed (rtu_recv_h c) st chunks = (st', map rtu_delivery ds, true).
Proof.
  induction chunks as [|x cs IH]; intros st ds H.
  - cbn in H. injection H as <-. exists st. reflexivity.
  - cbn [R.rtu_feed_dels map] in H. cbn [feed]. unfold rtu_recv_h at 1.
    destruct (FrRtu.rtu_recv (rtu_fcfg c) st x) as [[s1 d1] e].
    destruct (R.rtu_feed_dels (rtu_fcfg c) s1 cs) as [d2 xs] eqn:E.
    injection H as <- -> ->. destruct (IH s1 d2 E) as [st' Hf]. exists st'. rewrite Hf, map_app. reflexivity.
Qed.

(* ================================================================== the response packet *)
Lemma rtu_pk_ok : pk_ok packet_rtu rtu_adu (fun q => spec_delivery KAscii (frame_of q)).
Proof.
  split; [intros q; split; reflexivity|].
  intros q o ro m (_ & _ & Hu) _ Eu Ha Hc _ Hw. unfold rtu_adu, packet_rtu.
  destruct (py_pdu_parts ro _ (C01.C01_encode_conforms ro m Hc Ha)) as (fc & data & Hfc & Hr & Hd & Hp).
  rewrite Hfc, Hd. cbn [bind]. rewrite Hp in *. cbn [wfb forallb] in Hw. apply andb_true_iff in Hw as [_ Hw].
  rewrite Eu. rewrite <- (Z2N.id (q_uid q)) at 1 by lia. rewrite <- (Z2N.id fc) at 1 by lia.
  apply C03_rtubin.C03_build_rtu; [lia|lia|exact Hw].
Qed.

(* ================================================================== the theorem *)
Theorem e2e_rtu sk cfg l su qs chunks :
  In sk serial_fes -> units_rel l su ->
  Forall (rtu_item_ok sk cfg (u_keys slavectx l) (framer_cfg sk cfg l)) qs ->
  concat chunks = concat (map req_adu_rtu qs) ->
  exists l' st',
    rtu_server_run sk cfg l chunks = result l' (snd (spec_run_g rtu_adu (cf_single cfg) su qs)) st' /\
    units_rel l' (fst (spec_run_g rtu_adu (cf_single cfg) su qs)).
Proof.
  intros Hsk Hrel Hok Hcat. pose proof (serial_fe_ok sk Hsk) as Hfe.
  assert (Hitems : Forall (item_ok KAscii sk cfg (u_keys slavectx l) (framer_cfg sk cfg l)) qs).
  { eapply Forall_impl; [|exact Hok]. intros q. apply rtu_item_item. }
  destruct (stream_spec_g KAscii packet_rtu rtu_adu rtu_pk_ok sk cfg Hfe qs ltac:(discriminate) l su l eq_refl Hrel Hitems)
    as (l' & Hall & Hrel' & _).
  set (fc := framer_cfg sk cfg l) in *.
  assert (Hvf : Forall (R.vf (rtu_fcfg fc)) (map (rtu_frame fc) qs)).
  { apply Forall_forall. intros f Hf. apply in_map_iff in Hf as (q & <- & Hq).
    rewrite Forall_forall in Hok. exact (item_vf sk cfg l q (Hok q Hq)). }
  assert (Hcat' : concat (filter nonempty chunks) = R.stream (map (rtu_frame fc) qs)).
  { now rewrite concat_filter_nonempty, rtu_stream. }
  pose proof (C06_rtubin.C06_rtu (rtu_fcfg fc) (filter nonempty chunks) (map (rtu_frame fc) qs) FrRtu.rtu_init
                eq_refl (or_intror eq_refl) Hvf Hcat') as Hdels.
  destruct (feed_of_dels fc _ _ _ Hdels) as [st' Hfeed].
  rewrite rtu_msgs in Hfeed.
  2: { eapply Forall_impl; [|exact Hok]. intros q (Hu & _). lia. }
  exists l', st'. split; [|exact Hrel'].
  unfold rtu_server_run. rewrite run_serial_filter.
  eapply (run_serial_feed rtu_recv_h packet_rtu); [exact (proj1 Hfe)|apply filter_nonempty_all|exact Hfeed|exact Hall].
Qed.
