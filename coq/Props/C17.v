(* Props/C17.v — All server front-ends are behaviourally interchangeable.
   ONLY statements.  [code] is the set of loop / execute skeletons regenerated from
   pymodbus/server/{sync,async_io,asynchronous}.py on every run; the framer and the request
   execution are arbitrary ([env]), and so are configuration, state and input. *)
From PM.theories Require Import Base Ladder Frontends CorrFrontends.
From PM.Generated Require Import GenFrontends.
From PM.proofs Require Import Frontends_proofs FrontendsC17_proofs.
Open Scope list_scope.
Open Scope Z_scope.

(* --- the three copies of execute/_execute + send/_send are one function ---------------- *)

Theorem C17_callback_equiv :
  forall (FS Req Resp World : Type) (E : env FS Req Resp World) a b c w r,
    stream_fe a -> stream_fe b -> common_features _ _ _ _ E c ->
    callback _ _ _ _ E (fc_exec code a) c w r = callback _ _ _ _ E (fc_exec code b) c w r.
Proof.
  intros FS Req Resp World E a b c w r Ha Hb [Hc _ Hbus].
  apply callback_equiv; [apply generated_exec_agree| |]; assumption.
Qed.
Print Assumptions C17_callback_equiv.

(* --- one chunk: same world afterwards, byte-identical output; identical connection state and
       action too unless something was raised (the exception policies differ, see below) ----- *)

Theorem C17_step_equiv :
  forall (FS Req Resp World : Type) (E : env FS Req Resp World) a b c w cs bs,
    stream_fe a -> stream_fe b -> common_features _ _ _ _ E c -> bs <> [] ->
    let ra := serve_step _ _ _ _ code E a c w cs (IData bs) in
    let rb := serve_step _ _ _ _ code E b c w cs (IData bs) in
    fst (fst (fst ra)) = fst (fst (fst rb)) /\ snd (fst ra) = snd (fst rb) /\
    (snd ra = Continue -> ra = rb).
Proof. intros FS Req Resp World E. exact (step_equiv FS Req Resp World E). Qed.
Print Assumptions C17_step_equiv.

(* --- a whole connection: the sync, asyncio and Twisted stream front-ends are the same function
       of (shared world, chunk list): final world, final framer state, bytes sent ------------- *)

Theorem C17_equiv :
  forall (FS Req Resp World : Type) (E : env FS Req Resp World) a b c chunks w cs,
    stream_fe a -> stream_fe b -> common_features _ _ _ _ E c ->
    Forall (fun bs => bs <> []) chunks -> clean _ _ _ _ E a c w cs chunks = true ->
    run_conn _ _ _ _ code E a c w cs chunks = run_conn _ _ _ _ code E b c w cs chunks.
Proof. intros FS Req Resp World E. exact (conn_equiv FS Req Resp World E). Qed.
Print Assumptions C17_equiv.

(* --- what is NOT common (all read off the generated skeletons) --------------------------- *)

Theorem C17_listed_differences :
  (* Twisted has no broadcast branch, sync and asyncio do *)
  xs_broadcast (fc_exec code TwTcp) = false /\ xs_broadcast (fc_exec code SyncTcp) = true /\
  xs_broadcast (fc_exec code AioTcp) = true /\
  (* only Twisted is silenced by ListenOnly and only Twisted counts bus messages *)
  ls_listen_gate (fc_loop code TwTcp) = true /\ ls_listen_gate (fc_loop code SyncTcp) = false /\
  ls_listen_gate (fc_loop code AioTcp) = false /\
  xs_counts_bus (fc_exec code TwTcp) = true /\ xs_counts_bus (fc_exec code SyncTcp) = false /\
  xs_counts_bus (fc_exec code AioTcp) = false /\
  (* exception policy: stop+reset / close transport / escape *)
  (forall e, step_action (fc_loop code SyncTcp) false (Some (RPy e)) = StopReset) /\
  (forall e, step_action (fc_loop code AioTcp) false (Some (RPy e)) = CloseTransport) /\
  (forall e, step_action (fc_loop code TwTcp) false (Some (RPy e)) = Escape) /\
  (* the Twisted datagram server does not consult should_respond *)
  xs_send_checks_respond (fc_exec code TwUdp) = false /\
  (* datagram servers: a framer per datagram (sync) vs one framer for everything (asyncio, Twisted) *)
  ls_site (fc_loop code SyncUdp) = PerDatagram /\ ls_site (fc_loop code AioUdp) = PerServer /\
  ls_site (fc_loop code TwUdp) = PerServer.
Proof.
  repeat split; try reflexivity; intro e; destruct e; reflexivity.
Qed.
Print Assumptions C17_listed_differences.

Definition C17_full_statement : Prop :=
  forall (FS Req Resp World : Type) (E : env FS Req Resp World) a b c sv k i,
    snd (fst (serve_event _ _ _ _ code E a c sv k i)) = snd (fst (serve_event _ _ _ _ code E b c sv k i)) /\
    snd (serve_event _ _ _ _ code E a c sv k i) = snd (serve_event _ _ _ _ code E b c sv k i).

(* witness 1: a malformed chunk — the threaded handler stops and resets, Twisted lets it escape *)
Theorem C17_exception_policy_refuted : ~ C17_full_statement.
Proof.
  intro H.
  destruct (H nat Z Z (list Z) toy_env SyncTcp TwTcp toy_cfg (fresh_server _ _ _ _ toy_env []) O (IData [0%N])) as [_ H2].
  vm_compute in H2. discriminate.
Qed.
Print Assumptions C17_exception_policy_refuted.

(* witness 2: datagram servers — an incomplete datagram then a request from another peer:
   the threaded server answers it, the asyncio server (one framer for all) does not *)
Theorem C17_dgram_shared_framer_refuted :
  let sv0 := fresh_server _ _ _ _ toy_env [] in
  let sync1 := fst (fst (serve_event _ _ _ _ code toy_env SyncUdp toy_cfg sv0 0 (IData [255%N]))) in
  let aio1 := fst (fst (serve_event _ _ _ _ code toy_env AioUdp toy_cfg sv0 0 (IData [255%N]))) in
  snd (fst (serve_event _ _ _ _ code toy_env SyncUdp toy_cfg sync1 1 (IData [7%N]))) = [[7%N]] /\
  snd (fst (serve_event _ _ _ _ code toy_env AioUdp toy_cfg aio1 1 (IData [7%N]))) = [].
Proof. vm_compute. split; reflexivity. Qed.
Print Assumptions C17_dgram_shared_framer_refuted.

(* --- datagram front-ends, partial: on datagrams that carry whole frames (nothing is left in the
       framer, nothing is raised) the threaded server (handler + framer per datagram) and the
       asyncio server (one framer for all peers) send the same bytes to the same peers and end in
       the same world, for any sequence of datagrams from any peers.  The hypothesis is exactly what
       C17_dgram_shared_framer_refuted violates (its first datagram is an incomplete frame). ------ *)

Theorem C17_dgram_equiv_partial :
  forall (FS Req Resp World : Type) (E : env FS Req Resp World) c dgs sva svs,
    empty_read_idle _ _ _ _ E ->
    Forall (fun kb => whole_frames _ _ _ _ E (snd kb)) dgs ->
    sv_world _ _ sva = sv_world _ _ svs -> sv_shared _ _ sva = fresh_conn _ _ _ _ E ->
    dgram_clean _ _ _ _ E c (sv_world _ _ sva) dgs = true ->
    outs_of _ (snd (run_events _ _ _ _ code E SyncUdp c svs (dgram_events dgs))) =
    outs_of _ (snd (run_events _ _ _ _ code E AioUdp c sva (dgram_events dgs))) /\
    sv_world _ _ (fst (run_events _ _ _ _ code E SyncUdp c svs (dgram_events dgs))) =
    sv_world _ _ (fst (run_events _ _ _ _ code E AioUdp c sva (dgram_events dgs))).
Proof. intros FS Req Resp World E. exact (dgram_equiv FS Req Resp World E). Qed.
Print Assumptions C17_dgram_equiv_partial.

(* Twisted datagram protocol (alive since /repo b36db33) vs asyncio datagram handler: both keep
   ONE framer for all peers, so no whole-frame hypothesis is needed — under the common features, if
   every response is one that should be sent (Twisted's _send does not consult should_respond) and
   no datagram makes the handler see an exception, the two servers are the same function of the
   datagram history: same log (peer, world seen, bytes sent, action) and same final server state *)
Theorem C17_dgram_twisted_equiv :
  forall (FS Req Resp World : Type) (E : env FS Req Resp World) c dgs sv,
    common_features _ _ _ _ E c -> always_responds _ _ _ _ E ->
    Forall (fun kb => snd kb <> []) dgs ->
    events_clean _ _ _ _ E c sv dgs = true ->
    run_events _ _ _ _ code E TwUdp c sv (dgram_events dgs) =
    run_events _ _ _ _ code E AioUdp c sv (dgram_events dgs).
Proof. intros FS Req Resp World E. exact (tw_dgram_equiv FS Req Resp World E). Qed.
Print Assumptions C17_dgram_twisted_equiv.

(* one datagram, also when something is raised: same world, same bytes *)
Theorem C17_dgram_twisted_step :
  forall (FS Req Resp World : Type) (E : env FS Req Resp World) c w cs bs,
    common_features _ _ _ _ E c -> always_responds _ _ _ _ E -> bs <> [] ->
    let ra := serve_step _ _ _ _ code E TwUdp c w cs (IData bs) in
    let rb := serve_step _ _ _ _ code E AioUdp c w cs (IData bs) in
    fst (fst (fst ra)) = fst (fst (fst rb)) /\ snd (fst ra) = snd (fst rb) /\ (snd rb = Continue -> ra = rb).
Proof. intros FS Req Resp World E. exact (tw_dgram_step FS Req Resp World E). Qed.
Print Assumptions C17_dgram_twisted_step.

(* the hypotheses are satisfiable: in the toy environment request datagrams are whole frames, two
   peers are answered alike; and the refutation witness's first datagram is NOT a whole frame *)
Example C17_dgram_nonvacuous :
  empty_read_idle _ _ _ _ toy_env /\ whole_frames _ _ _ _ toy_env [7%N] /\ ~ whole_frames _ _ _ _ toy_env [255%N] /\
  dgram_clean _ _ _ _ toy_env toy_cfg [] [(0%nat, [7%N]); (1%nat, [9%N])] = true /\
  always_responds _ _ _ _ toy_env /\
  events_clean _ _ _ _ toy_env toy_cfg (fresh_server _ _ _ _ toy_env []) [(0%nat, [7%N]); (1%nat, [9%N])] = true /\
  outs_of _ (snd (run_events _ _ _ _ code toy_env AioUdp toy_cfg (fresh_server _ _ _ _ toy_env [])
                    (dgram_events [(0%nat, [7%N]); (1%nat, [9%N])]))) = [(0%nat, [[7%N]]); (1%nat, [[9%N]])].
Proof.
  split; [intro fa; reflexivity|].
  split; [split; [discriminate|intro fa; eexists; reflexivity]|].
  split; [intros [_ H]; destruct (H {| fa_units := []; fa_single := true |}) as [ds Hd]; vm_compute in Hd; discriminate|].
  split; [vm_compute; reflexivity|].
  split; [intro p; reflexivity|].
  split; vm_compute; reflexivity.
Qed.

(* --- connections are private -------------------------------------------------------------- *)

Theorem C17_conn_private :
  forall (FS Req Resp World : Type) (E : env FS Req Resp World) fe c sv k j i,
    stream_fe fe \/ fe = SyncUdp -> j <> k ->
    conn_state _ _ _ _ code E fe (fst (fst (serve_event _ _ _ _ code E fe c sv k i))) j =
    conn_state _ _ _ _ code E fe sv j.
Proof.
  intros FS Req Resp World E fe c sv k j i Hfe Hjk. apply conn_private; [|assumption].
  destruct Hfe as [[H|[H|H]]|H]; subst; discriminate.
Qed.
Print Assumptions C17_conn_private.

(* --- any interleaving of several connections' chunks yields, per connection, exactly what that
       connection produces alone when it is shown the same sequence of worlds --------------- *)

Theorem C17_interleave :
  forall (FS Req Resp World : Type) (E : env FS Req Resp World) fe c k evs sv,
    stream_fe fe ->
    let '(svf, lg) := run_events _ _ _ _ code E fe c sv evs in
    run_alone _ _ _ _ code E fe c (conn_state _ _ _ _ code E fe sv k)
              (map (fun r => (lg_world _ r, lg_input _ r)) (mine _ k lg)) =
    (conn_state _ _ _ _ code E fe svf k, map (fun r => (lg_out _ r, lg_action _ r)) (mine _ k lg)).
Proof.
  intros FS Req Resp World E fe c k evs sv Hfe. apply interleave.
  destruct Hfe as [H|[H|H]]; subst; reflexivity.
Qed.
Print Assumptions C17_interleave.

(* the only thing connections share is the world: an event on k changes the world exactly as
   C12_store_only_by_exec says and nothing else of the other connections *)

(* non-vacuity: the toy environment has the common features, a clean two-chunk connection is
   answered, and three interleaved connections keep their framer states apart *)
Example C17_nonvacuous :
  common_features _ _ _ _ toy_env toy_cfg /\
  clean _ _ _ _ toy_env SyncTcp toy_cfg [] (fresh_conn _ _ _ _ toy_env) [[7%N]; [9%N]] = true /\
  run_conn _ _ _ _ code toy_env TwTcp toy_cfg [] (fresh_conn _ _ _ _ toy_env) [[7%N]; [9%N]] =
    ([9; 7], fresh_conn _ _ _ _ toy_env, [[7%N]; [9%N]]) /\
  map (fun r => (lg_conn _ r, lg_out _ r))
      (snd (run_events _ _ _ _ code toy_env AioTcp toy_cfg (fresh_server _ _ _ _ toy_env [])
              [(0%nat, IData [255%N]); (1%nat, IData [5%N]); (0%nat, IData [6%N]); (2%nat, IData [8%N])])) =
    [(0%nat, []); (1%nat, [[5%N]]); (0%nat, []); (2%nat, [[8%N]])].
Proof.
  split; [constructor; reflexivity|]. vm_compute. repeat split; reflexivity.
Qed.
