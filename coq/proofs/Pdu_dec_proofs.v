(* Pdu_dec_proofs.v — C01 decode conformance, entry point for importers.
   The lemmas live in Pdu_dec1_proofs.v (single-struct and list kinds) and Pdu_dec2_proofs.v
   (file records, device identification, the theorem [decode_conforms], explicit decoded objects and
   wire-derived attributes); both are re-exported here. *)
From PM.proofs Require Export Pdu_dec1_proofs Pdu_dec2_proofs.
