(* Props/C11_rtubin.v — C11, RTU / binary half: resynchronisation.  ONLY statements. *)
From PM.theories Require Import Base Expr Struct FrBCode Crc FrBCommon FrRtu FrBin FrSpecB.
From PM.Generated Require Import GenFramerB.
From PM.proofs Require Import Crc_proofs FrB_witness_proofs FrB_rtu_proofs FrB_bin_proofs.
Open Scope list_scope.
Open Scope N_scope.

(* RTU, once synchronised (empty buffer; header {} or the initial dict): every valid frame, one
   per read, is delivered by its own read and the receiver is synchronised again — for any
   number of frames *)
Theorem C11_rtu_after_sync : forall cfg (frames : list (N * bytes)) st,
  r_buf st = [] -> (r_hdr st = hdr_empty \/ r_hdr st = r_hdr rtu_init) ->
  Forall (fun f => valid_frame cfg (fst f) (snd f)) frames ->
  rtu_feed_dels cfg st (map (fun f => spec_adu_rtu (fst f) (snd f)) frames) =
    (map (fun f => (snd f, Z.of_N (fst f))) frames, map (fun _ => FOk) frames).
Proof. exact rtu_one_per_read. Qed.
Print Assumptions C11_rtu_after_sync.

(* RTU resynchronisation step: whenever checkFrame rejects (False), either the buffer is untouched
   (candidate still incomplete) or the receiver is back in the synchronised state: a
   length-complete candidate with a bad CRC costs the whole buffer, nothing is retained *)
Theorem C11_rtu_bad_crc_resyncs : forall cfg st st2, rtu_check cfg st = (st2, Ok false) ->
  (r_buf st2 = [] /\ r_hdr st2 = hdr_empty) \/ r_buf st2 = r_buf st.
Proof. exact rtu_check_false_resets. Qed.
Print Assumptions C11_rtu_bad_crc_resyncs.

(* RTU RECOVERY BOUND, request direction (ServerDecoder table), for EVERY buffer content (any
   garbage) and every pending header whose length is at most 268: once 268 = 255 + 10 + 3 bytes
   are buffered (the largest extent the request-table size oracle can return) a call cannot keep
   waiting: it raises (the serial handlers then reset the framer), or drops everything and is
   synchronised, or delivers one message (justified: C07_gate_rtu) consuming at least 4 bytes and
   leaving an empty header.  268 bytes is at most two maximum-size frames (2 x 256) of traffic. *)
Theorem C11_recover_rtu : forall cfg st chunk st' ds x,
  cf_rules cfg = server_decoder -> wfb (r_buf st ++ chunk) = true -> hdr_bounded (r_hdr st) ->
  (268 <= zlen (r_buf st ++ chunk))%Z ->
  rtu_recv cfg st chunk = (st', ds, x) ->
  x <> FOk \/
  (r_buf st' = [] /\ r_hdr st' = hdr_empty /\ ds = []) \/
  (exists d, ds = [d] /\ r_hdr st' = hdr_empty /\ (zlen (r_buf st') + 4 <= zlen (r_buf st ++ chunk))%Z).
Proof. exact rtu_recover_server. Qed.
Print Assumptions C11_recover_rtu.

(* its header hypothesis is an invariant: true initially, after a reset, and after every call
   that returns normally *)
Theorem C11_rtu_header_bounded : hdr_bounded (r_hdr rtu_init) /\ hdr_bounded hdr_empty /\
  forall cfg st chunk st' ds,
    cf_rules cfg = server_decoder -> wfb (r_buf st ++ chunk) = true -> hdr_bounded (r_hdr st) ->
    rtu_recv cfg st chunk = (st', ds, FOk) -> hdr_bounded (r_hdr st').
Proof. split; [exact hdr_bounded_init|]. split; [exact hdr_bounded_empty|]. exact rtu_recv_hdr_bounded. Qed.
Print Assumptions C11_rtu_header_bounded.

(* the bound is specific to the request table: on the response table it is refuted
   (C11_rtu_fifo_refuted: 16 MB extent; C06_rtu_mei_refuted: KeyError for ever) *)

(* binary, partial: from any state with an empty buffer, delimiter-free valid frames, one per
   read, are each delivered by their own read (any number of them) *)
Theorem C11_binary_after_sync : forall cfg (frames : list (N * bytes)) st,
  b_buf st = [] ->
  Forall (fun f => valid_bframe cfg (fst f) (snd f)) frames ->
  bin_feed_dels cfg st (map (fun f => spec_adu_binary (fst f) (snd f)) frames) =
    (map (fun f => (snd f, Z.of_N (fst f))) frames, map (fun _ => FOk) frames).
Proof. exact bin_one_per_read. Qed.
Print Assumptions C11_binary_after_sync.

(* binary, bare framer: refuted — "{}" makes struct.error escape for ever
   (finding F-C11-binary-short-brace-deaf) *)
Theorem C11_binary_refuted :
  let f := spec_adu_binary 1 pdu_a in
  exits (bin_feed cfg_server bin_init [[123; 125]; f; f; f]) =
    [FExn StructError; FExn StructError; FExn StructError; FExn StructError] /\
  deliveries (bin_feed cfg_server bin_init [[123; 125]; f; f; f]) = [].
Proof. exact binary_short_brace_deaf_witness. Qed.
Print Assumptions C11_binary_refuted.

(* RTU, bare framer: refuted — a CRC-valid frame the decoder rejects is never removed
   (finding F-C11-rtubin-undecodable-frame-deaf) *)
Theorem C11_rtu_undecodable_refuted :
  let cfg := {| cf_dec := fun pdu => if bytes_eqb pdu [3; 0] then DNone else DMsg;
                cf_rules := client_decoder; cf_units := [1%Z]; cf_single := true |} in
  let bad := spec_adu_rtu 1 [3; 0] in
  let f := spec_adu_rtu 1 [3; 2; 0; 7] in
  exits (rtu_feed cfg rtu_init [bad; f; f; f]) = [FExn ModbusIOExc; FExn ModbusIOExc; FExn ModbusIOExc; FExn ModbusIOExc] /\
  deliveries (rtu_feed cfg rtu_init [bad; f; f; f]) = [].
Proof. exact rtu_undecodable_deaf_witness. Qed.
Print Assumptions C11_rtu_undecodable_refuted.

(* RTU, responses: refuted — the Read FIFO Queue size oracle can demand 16 MB
   (finding F-C11-rtu-fifo-size) *)
Theorem C11_rtu_fifo_refuted :
  let f := spec_adu_rtu 1 [3; 2; 0; 7] in
  frame_size (lookup_rule client_decoder 24) [1; 24; 255; 255] = Ok 16711941%Z /\
  deliveries (rtu_feed cfg_client rtu_init [[1; 24; 255; 255]; f; f; f; f]) = [] /\
  length (r_buf (fst (fst (rtu_feed cfg_client rtu_init [[1; 24; 255; 255]; f; f; f; f])))) = 32%nat.
Proof. exact rtu_fifo_size_witness. Qed.
Print Assumptions C11_rtu_fifo_refuted.

(* RTU: refuted — several frames per read: the backlog grows without bound
   (finding F-C11-rtu-backlog-several-per-read) *)
Theorem C11_rtu_backlog_refuted :
  let f := spec_adu_rtu 1 pdu_a in
  map (fun n => length (r_buf (fst (fst (rtu_feed cfg_server rtu_init (repeat (f ++ f) n))))))
      [1; 2; 3; 4; 5]%nat = [8; 16; 24; 32; 40]%nat.
Proof. exact rtu_backlog_growth_witness. Qed.
Print Assumptions C11_rtu_backlog_refuted.
