"""Translator for the regular parts of the PDU layer (C01/C02) -> Generated/GenPdu.v.

Emits *data only*:
  class_fc / class_sub        function_code / sub_function_code of every class the two factories can
                              produce (resolved through the Python base-class chain)
  server_/client_ function and sub-function tables of factory.py, in source order
  enc_layouts / dec_layouts   for every class whose encode is ONE struct.pack(fmt, self.a, ...) and whose
                              decode is ONE struct.unpack(fmt, data) assigned to attributes: byte order,
                              format characters and the ordered attribute names
  struct_fmts                 for every (class, method in encode/decode/_encode_object) the struct format
                              arguments in source order (ties the literals the hand model uses)
  exception codes, ExceptionOffset, the `> 0x80` / `& 0x7f` constants of ClientDecoder._helper,
  ModbusStatus / MoreData / DeviceInformation constants
Anything that does not have exactly the recognised shape raises TranslatorFail (fail closed).
The semantics (what a layout *means*) lives in coq/theories/Pdu.v.
"""
import ast
import re

from . import core
from .core import Src, TranslatorFail, coq_z, coq_str, coq_list, coq_bool, is_docstring, is_log_call

MODULES = ["pymodbus/bit_read_message.py", "pymodbus/bit_write_message.py",
           "pymodbus/register_read_message.py", "pymodbus/register_write_message.py",
           "pymodbus/file_message.py", "pymodbus/other_message.py", "pymodbus/diag_message.py",
           "pymodbus/mei_message.py", "pymodbus/pdu.py"]

# classes whose encode/decode bodies are irregular and are modelled by hand in coq/theories/Pdu.v
# (tied by the correspondence suites and by struct_fmts); every other class must be fixed-format.
HAND = {
    "WriteSingleCoilRequest", "WriteSingleCoilResponse", "WriteSingleRegisterRequest",
    "WriteMultipleCoilsRequest", "WriteMultipleRegistersRequest",
    "ReadCoilsResponse", "ReadDiscreteInputsResponse",
    "ReadHoldingRegistersResponse", "ReadInputRegistersResponse",
    "ReadWriteMultipleRegistersRequest", "ReadWriteMultipleRegistersResponse",
    "ReadExceptionStatusRequest", "ReadExceptionStatusResponse",
    "GetCommEventCounterRequest", "GetCommEventCounterResponse",
    "GetCommEventLogRequest", "GetCommEventLogResponse",
    "ReportSlaveIdRequest", "ReportSlaveIdResponse",
    "ReadFileRecordRequest", "ReadFileRecordResponse", "WriteFileRecordRequest", "WriteFileRecordResponse",
    "ReadFifoQueueResponse", "ReadDeviceInformationResponse",
    "ExceptionResponse", "IllegalFunctionRequest",
    "DiagnosticStatusRequest", "DiagnosticStatusResponse",
}
DIAG_BASES = {"DiagnosticStatusRequest", "DiagnosticStatusResponse"}

FMTC = {"B": "FB", "b": "Fb", "H": "FH", "h": "Fh", "I": "FI", "i": "Fi", "Q": "FQ", "q": "Fq"}


class World:
    def __init__(self):
        self.srcs = [Src(m) for m in MODULES]
        self.classes = {}
        for s in self.srcs:
            for n in s.mod.body:
                if isinstance(n, ast.ClassDef):
                    self.classes[n.name] = (s, n)

    def mro(self, name):
        """single-inheritance chain of class names inside the anchored modules"""
        out = []
        while name in self.classes:
            out.append(name)
            s, n = self.classes[name]
            bases = [b.id for b in n.bases if isinstance(b, ast.Name)]
            if len(n.bases) != 1 or len(bases) != 1:
                s.fail(n, "class %s: expected exactly one simple base class" % name)
            name = bases[0]
        return out

    def attr(self, cls, name):
        for c in self.mro(cls):
            s, n = self.classes[c]
            for st in n.body:
                if isinstance(st, ast.Assign) and len(st.targets) == 1 and \
                        isinstance(st.targets[0], ast.Name) and st.targets[0].id == name:
                    return s, st.value
        return None, None

    def method(self, cls, name):
        for c in self.mro(cls):
            s, n = self.classes[c]
            for st in n.body:
                if isinstance(st, ast.FunctionDef) and st.name == name:
                    return s, st, c
        return None, None, None


def parse_fmt(src, node, text):
    """'>HHB' -> (big, [fmtc...]); byte-order prefix required unless every field is one byte wide"""
    m = re.fullmatch(r"([<>!]?)((?:\d*[A-Za-z])*)", text)
    if not m:
        src.fail(node, "unrecognised struct format %r" % text)
    prefix, rest = m.group(1), m.group(2)
    chars = []
    for cnt, ch in re.findall(r"(\d*)([A-Za-z])", rest):
        if ch not in FMTC:
            src.fail(node, "struct format character %r not modelled (%r)" % (ch, text))
        chars += [ch] * (int(cnt) if cnt else 1)
    if prefix == "":
        if any(c not in "Bb" for c in chars):
            src.fail(node, "native byte order/alignment format %r is not modelled" % text)
        big = True
    else:
        big = prefix in (">", "!")
    return big, [FMTC[c] for c in chars]


def body(fn):
    return [s for s in fn.body if not is_docstring(s) and not is_log_call(s)]


def is_struct_call(n, which):
    return isinstance(n, ast.Call) and isinstance(n.func, ast.Attribute) and n.func.attr == which \
        and isinstance(n.func.value, ast.Name) and n.func.value.id == "struct" and not n.keywords


def self_attr(n):
    if isinstance(n, ast.Attribute) and isinstance(n.value, ast.Name) and n.value.id == "self":
        return n.attr
    return None


def enc_layout(src, fn):
    """`return struct.pack(F, self.a, ...)` or `p = struct.pack(F, self.a, ...); return p` -> (fmt, attrs) | None"""
    b = body(fn)
    call = None
    if len(b) == 1 and isinstance(b[0], ast.Return) and is_struct_call(b[0].value, "pack"):
        call = b[0].value
    elif len(b) == 2 and isinstance(b[0], ast.Assign) and len(b[0].targets) == 1 \
            and isinstance(b[0].targets[0], ast.Name) and is_struct_call(b[0].value, "pack") \
            and isinstance(b[1], ast.Return) and isinstance(b[1].value, ast.Name) \
            and b[1].value.id == b[0].targets[0].id:
        call = b[0].value
    if call is None or not call.args or not (isinstance(call.args[0], ast.Constant) and isinstance(call.args[0].value, str)):
        return None
    attrs = [self_attr(a) for a in call.args[1:]]
    if None in attrs:
        return None
    return parse_fmt(src, call, call.args[0].value), attrs


def dec_layout(src, fn):
    """`self.a, self.b = struct.unpack(F, data)` | `self.a = struct.unpack(F, data)[0]` |
       `p = struct.unpack(F, data); self.a, ... = p`   -> (fmt, attrs) | None"""
    if [a.arg for a in fn.args.args] != ["self", "data"]:
        return None
    b = body(fn)

    def whole_data(call):
        return is_struct_call(call, "unpack") and len(call.args) == 2 and isinstance(call.args[1], ast.Name) \
            and call.args[1].id == "data" and isinstance(call.args[0], ast.Constant) and isinstance(call.args[0].value, str)

    def targets(t):
        if isinstance(t, ast.Tuple):
            return [self_attr(e) for e in t.elts]
        return None

    if len(b) == 1 and isinstance(b[0], ast.Assign) and len(b[0].targets) == 1:
        t, v = b[0].targets[0], b[0].value
        if whole_data(v) and targets(t) and None not in targets(t):
            return parse_fmt(src, v, v.args[0].value), targets(t)
        if isinstance(v, ast.Subscript) and whole_data(v.value) and isinstance(v.slice, ast.Constant) \
                and v.slice.value == 0 and self_attr(t):
            fmt = parse_fmt(src, v, v.value.args[0].value)
            if len(fmt[1]) != 1:
                return None
            return fmt, [self_attr(t)]
    if len(b) == 2 and all(isinstance(s, ast.Assign) and len(s.targets) == 1 for s in b):
        t0, v0, t1, v1 = b[0].targets[0], b[0].value, b[1].targets[0], b[1].value
        if isinstance(t0, ast.Name) and whole_data(v0) and isinstance(v1, ast.Name) and v1.id == t0.id \
                and targets(t1) and None not in targets(t1):
            return parse_fmt(src, v0, v0.args[0].value), targets(t1)
    return None


def fmt_args(fn):
    """first arguments of every struct.pack/unpack call of a method, in source order, as text"""
    out = []
    calls = [n for n in ast.walk(fn) if is_struct_call(n, "pack") or is_struct_call(n, "unpack")]
    calls.sort(key=lambda n: (n.lineno, n.col_offset))
    for n in calls:
        if not n.args:
            continue
        a = n.args[0]
        out.append(a.value if isinstance(a, ast.Constant) and isinstance(a.value, str) else "EXPR " + ast.unparse(a))
    return out


def layout_term(lay):
    (big, chars), attrs = lay
    if len(chars) != len(attrs):
        return None
    return "(%s, %s, %s)" % (coq_bool(big), coq_list(chars), coq_list(coq_str(a) for a in attrs))


def table(fac, cls, name):
    node = fac.class_attr(cls, name)
    if not isinstance(node, ast.List) or not all(isinstance(e, ast.Name) for e in node.elts):
        fac.fail(fac.cls(cls), "%s.%s: expected a list of class names" % (cls, name))
    return [e.id for e in node.elts]


def const_of(src, cls, name):
    v = src.class_attr(cls, name)
    if v is None:
        src.fail(src.cls(cls), "%s.%s not found" % (cls, name))
    return core.const_int(src, v)


def generate():
    w = World()
    fac = Src("pymodbus/factory.py")
    cst = Src("pymodbus/constants.py")
    pdu = [s for s in w.srcs if s.rel.endswith("/pdu.py")][0]

    tabs = {
        "server_function_table": table(fac, "ServerDecoder", "__function_table"),
        "server_sub_function_table": table(fac, "ServerDecoder", "__sub_function_table"),
        "client_function_table": table(fac, "ClientDecoder", "__function_table"),
        "client_sub_function_table": table(fac, "ClientDecoder", "__sub_function_table"),
    }
    # the dictionaries built from the tables: shape-check the two __init__ bodies
    for dec in ("ServerDecoder", "ClientDecoder"):
        fn = fac.func(dec, "__init__")
        got = re.sub(r"\s+", "", "\n".join(ast.unparse(s) for s in body(fn)))
        want = re.sub(r"\s+", "", (
            "functions = set((f.function_code for f in self.__function_table))\n"
            "self.__lookup = dict([(f.function_code, f) for f in self.__function_table])\n"
            "self.__sub_lookup = dict(((f, {}) for f in functions))\n"
            "for f in self.__sub_function_table:\n    self.__sub_lookup[f.function_code][f.sub_function_code] = f"))
        if got != want:
            fac.fail(fn, "%s.__init__: lookup construction has an unrecognised shape" % dec)

    names = []
    for t in tabs.values():
        for n in t:
            if n not in names:
                names.append(n)
    for n in names:
        if n not in w.classes:
            raise TranslatorFail("pymodbus/factory.py", 0, "class %s of a decoder table not found in the anchored modules" % n)

    class_fc, class_sub, encs, decs, fmts = [], [], [], [], []
    for n in names:
        s, v = w.attr(n, "function_code")
        if v is None:
            raise TranslatorFail("pymodbus/factory.py", 0, "class %s has no function_code" % n)
        class_fc.append("(%s, %s)" % (n, coq_z(core.const_int(s, v))))
        s, v = w.attr(n, "sub_function_code")
        if v is not None:
            class_sub.append("(%s, %s)" % (n, coq_z(core.const_int(s, v))))
        mro = w.mro(n)
        hand = n in HAND or any(c in DIAG_BASES for c in mro)
        se, fe, _ = w.method(n, "encode")
        sd, fd, _ = w.method(n, "decode")
        if fe is None or fd is None:
            raise TranslatorFail("pymodbus/factory.py", 0, "class %s lacks encode/decode" % n)
        le, ld = enc_layout(se, fe), dec_layout(sd, fd)
        if not hand:
            te = layout_term(le) if le else None
            td = layout_term(ld) if ld else None
            if te is None:
                se.fail(fe, "%s.encode is neither a single struct.pack of attributes nor hand-modelled" % n)
            if td is None:
                sd.fail(fd, "%s.decode is neither a single struct.unpack into attributes nor hand-modelled" % n)
            encs.append("(%s, %s)" % (n, te))
            decs.append("(%s, %s)" % (n, td))
    # format literals of every encode/decode/_encode_object body (per defining class, not per subclass)
    for cname in sorted(w.classes):
        s, node = w.classes[cname]
        for st in node.body:
            if isinstance(st, ast.FunctionDef) and st.name in ("encode", "decode", "_encode_object"):
                fa = fmt_args(st)
                if fa:
                    fmts.append("(%s, %s, %s)" % (coq_str(cname), coq_str(st.name), coq_list(coq_str(x) for x in fa)))
    # constructors: parameter list (with defaults) and every statement of each __init__ defined in the
    # anchored modules, as text; the harness builds messages through these constructors and
    # Pdu.modelled_ctors (what the expected-instance model of props/lib_pdu.py was written against) is
    # proved equal to this list, so an edited constructor breaks a proof (fail closed)
    ctors = []
    for cname in sorted(w.classes):
        s_, node = w.classes[cname]
        for st in node.body:
            if isinstance(st, ast.FunctionDef) and st.name == "__init__":
                a = st.args
                if a.posonlyargs or a.kwonlyargs or a.vararg:
                    s_.fail(st, "%s.__init__: unsupported parameter kinds" % cname)
                names = [x.arg for x in a.args]
                defaults = [None] * (len(names) - len(a.defaults)) + [ast.unparse(d) for d in a.defaults]
                sig = ", ".join(n if d is None else "%s=%s" % (n, d) for n, d in zip(names, defaults))
                if a.kwarg is not None:
                    sig += ", **" + a.kwarg.arg
                stmts = [" ".join(ast.unparse(x).split()) for x in st.body if not is_docstring(x) and not is_log_call(x)]
                ctors.append("(%s, %s, %s)" % (coq_str(cname), coq_str(sig), coq_list(coq_str(x) for x in stmts)))
    # module-level packed constants of bit_write_message
    bw = [s for s in w.srcs if s.rel.endswith("bit_write_message.py")][0]
    for nm, want in (("_turn_coil_on", "ModbusStatus.On"), ("_turn_coil_off", "ModbusStatus.Off")):
        v = bw.module_const(nm)
        if not (is_struct_call(v, "pack") and len(v.args) == 2 and isinstance(v.args[0], ast.Constant)
                and ast.unparse(v.args[1]) == want):
            bw.fail(v, "%s: expected struct.pack(fmt, %s)" % (nm, want))
        fmts.append("(%s, %s, %s)" % (coq_str("bit_write_message"), coq_str(nm), coq_list([coq_str(v.args[0].value)])))

    # exception layout
    exc_codes = []
    for st in pdu.cls("ModbusExceptions").body:
        if isinstance(st, ast.Assign) and len(st.targets) == 1 and isinstance(st.targets[0], ast.Name):
            exc_codes.append("(%s, %s)" % (coq_str(st.targets[0].id), coq_z(core.const_int(pdu, st.value))))
    offset = const_of(pdu, "ExceptionResponse", "ExceptionOffset")
    fn = pdu.func("ExceptionResponse", "__init__")
    if "self.function_code = function_code | self.ExceptionOffset" not in [ast.unparse(s) for s in body(fn)]:
        pdu.fail(fn, "ExceptionResponse.__init__: function_code | self.ExceptionOffset not found")
    # client decoder error branch:  if function_code > C: code = function_code & M; response = ExceptionResponse(code, ecode.X)
    fn = fac.func("ClientDecoder", "_helper")
    thr = mask = dflt = None
    for st in fn.body:
        if isinstance(st, ast.If) and isinstance(st.test, ast.Compare) and ast.unparse(st.test.left) == "function_code" \
                and len(st.test.ops) == 1 and isinstance(st.test.ops[0], ast.Gt):
            b = body(st)
            if len(b) == 2 and isinstance(b[0], ast.Assign) and isinstance(b[0].value, ast.BinOp) \
                    and isinstance(b[0].value.op, ast.BitAnd) and ast.unparse(b[0].value.left) == "function_code" \
                    and ast.unparse(b[0].targets[0]) == "code" \
                    and re.fullmatch(r"response = ExceptionResponse\(code, ecode\.(\w+)\)", ast.unparse(b[1])) \
                    and not st.orelse:
                thr = core.const_int(fac, st.test.comparators[0])
                mask = core.const_int(fac, b[0].value.right)
                nm = re.fullmatch(r"response = ExceptionResponse\(code, ecode\.(\w+)\)", ast.unparse(b[1])).group(1)
                dflt = const_of(pdu, "ModbusExceptions", nm)
    if thr is None:
        fac.fail(fn, "ClientDecoder._helper: `if function_code > C: code = function_code & M; "
                     "response = ExceptionResponse(code, ecode.X)` not found")

    consts = [("status_on", const_of(cst, "ModbusStatus", "On")), ("status_off", const_of(cst, "ModbusStatus", "Off")),
              ("status_ready", const_of(cst, "ModbusStatus", "Ready")), ("status_waiting", const_of(cst, "ModbusStatus", "Waiting")),
              ("status_slave_on", const_of(cst, "ModbusStatus", "SlaveOn")), ("status_slave_off", const_of(cst, "ModbusStatus", "SlaveOff")),
              ("more_nothing", const_of(cst, "MoreData", "Nothing")), ("more_keep_reading", const_of(cst, "MoreData", "KeepReading")),
              ("devinfo_basic", const_of(cst, "DeviceInformation", "Basic")),
              ("exception_offset", offset), ("client_exc_threshold", thr), ("client_exc_mask", mask),
              ("client_exc_default_code", dflt)]

    out = ["(* GENERATED by /verif/gen/gen_pdu.py from /repo's current source on every run. Do not edit. *)",
           "From PM.theories Require Import Base Struct PduCls.",
           "Open Scope string_scope.", "Open Scope list_scope.", "Open Scope Z_scope.", ""]

    def lst(name, ty, items):
        out.append("Definition %s : %s :=\n  [%s].\n" % (name, ty, ";\n   ".join(items)))

    lst("class_fc", "list (cls * Z)", class_fc)
    lst("class_sub", "list (cls * Z)", class_sub)
    for k, v in tabs.items():
        lst(k, "list cls", v)
    lst("enc_layouts", "list (cls * (bool * list fmtc * list string))", encs)
    lst("dec_layouts", "list (cls * (bool * list fmtc * list string))", decs)
    lst("struct_fmts", "list (string * string * list string)", fmts)
    lst("ctor_sigs", "list (string * string * list string)", ctors)
    lst("exception_codes", "list (string * Z)", exc_codes)
    for k, v in consts:
        out.append("Definition %s : Z := %s." % (k, coq_z(v)))
    return {"GenPdu.v": "\n".join(out) + "\n"}
