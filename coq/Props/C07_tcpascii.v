(* Props/C07_tcpascii.v — C07 (corrupted frames are never delivered), half for the socket and
   ASCII framers and the LRC.  Gate theorems hold from ANY receiver state (arbitrary buffer and
   header), hence for every corruption, truncation, extension and surrounding traffic. *)
From PM.theories Require Import Base Expr Struct FrBaseA Lrc FrTcp FrAscii FrSpecA.
From PM.Generated Require Import GenFramerA.
From PM.proofs Require Import FrA_lrc_proofs FrA_tcp_proofs FrA_ascii_proofs FrA_ascii_gate_proofs FrA_tcp_gate_proofs.
Open Scope list_scope.
Open Scope Z_scope.

(* ASCII: whenever checkFrame accepts, the (trimmed) buffer is  ':' D c1 c2 CR LF rest  where D and
   c1 c2 are hex, the two characters c1 c2 are the LRC of the bytes encoded by D (checkLRC is
   the specification LRC by C03_lrc), the header holds that LRC, the unit parsed from the first two
   characters and len = index of CR; nothing before the ':' is used *)
Theorem C07_gate_ascii : forall st st1 : astate,
  a_check lrc ascii st = (st1, true) ->
  exists pre D c1 c2 rest data,
    a_buf st = pre ++ a_buf st1 /\
    ascii_span (a_buf st1) (a_uid (a_hdr st1)) (match a_lrc (a_hdr st1) with Some v => v | None => -1 end)
               data D c1 c2 rest /\
    a_len (a_hdr st1) = Z.of_nat (S (length D + 2)).
Proof. intros st st1 H. rewrite a_check_eq in H. exact (ascii_check_gate st st1 H). Qed.
Print Assumptions C07_gate_ascii.

(* TCP: whenever checkFrame accepts, the header is the first 7 buffered bytes, its length field is
   >= 2 and consistent: the PDU given to the decoder is exactly the next len-1 bytes, all present *)
Theorem C07_gate_tcp : forall st st1 : tstate,
  t_check tcp st = Ok (st1, true) ->
  t_buf st1 = t_buf st /\ t_hdr st1 = hdr_of (firstn 7 (t_buf st)) /\ 2 <= h_len (t_hdr st1) /\
  t_getframe tcp st1 = firstn (Z.to_nat (h_len (t_hdr st1) - 1)) (skipn 7 (t_buf st)) /\
  Z.of_nat (length (t_getframe tcp st1)) = h_len (t_hdr st1) - 1 /\
  t_buf st = firstn 7 (t_buf st) ++ t_getframe tcp st1 ++ t_buf (t_advance tcp st1).
Proof. exact tcp_check_gate. Qed.
Print Assumptions C07_gate_tcp.

(* ---- LOOP LEVEL: every element of the delivery list of a receive call --------------------------
   [ascii_justified buf d]: buf = pre ++ ':' D c1 c2 CR LF rest, D and c1 c2 hex, the byte encoded by
   c1 c2 is the specification LRC of the bytes encoded by D, and those bytes are unit :: PDU of d
   (tid = pid = 0).  Degenerate span ':00 CR LF' (no bytes): unit 0, empty PDU. *)
Theorem C07_deliveries_ascii : forall (dec : bytes -> dres) (c : cfg) (st : astate) (chunk : bytes) st' ds o,
  a_recv base lrc ascii dec c st chunk = (st', ds, o) ->
  Forall (ascii_justified (a_buf st ++ chunk)) ds.
Proof. exact ascii_recv_gate. Qed.
Print Assumptions C07_deliveries_ascii.

(* TCP (full statement since repair 9 removed the _process(error=True) branch): every delivery is
   justified by a complete spec MBAP ADU (length field = |PDU| + 1 >= 2, these tid/pid/uid/PDU)
   lying in buffer ++ chunk — from ANY state, for ANY input *)
Theorem C07_deliveries_tcp : forall (dec : bytes -> dres) (c : cfg) (st : tstate) (chunk : bytes) st' ds o,
  wfb (t_buf st) = true -> wfb chunk = true ->
  t_recv base tcp dec c st chunk = (st', ds, o) ->
  Forall (tcp_justified (t_buf st ++ chunk)) ds.
Proof. exact tcp_recv_gate. Qed.
Print Assumptions C07_deliveries_tcp.

(* with the PDU-length rule of the protocol ([spec_pdu_len]: fixed size or byte count per function
   code and direction): PARTIAL — under the hypothesis that the decoder in use rejects PDUs of the
   wrong length, every delivery additionally carries a PDU of exactly the defined length.  The
   hypothesis is forced: the real decoders tolerate trailing / missing bytes for several classes
   (open finding F-C07-tcp-wrong-length-pdu-accepted); the framer itself checks no PDU length. *)
Definition C07_deliveries_tcp_pdu_len_full_statement : Prop :=
  forall (dec : bytes -> dres) (server : bool) (c : cfg) (st : tstate) (chunk : bytes) st' ds o,
  wfb (t_buf st) = true -> wfb chunk = true -> t_recv base tcp dec c st chunk = (st', ds, o) ->
  Forall (fun d => pdu_len_ok server (d_pdu d) = true) ds.
Theorem C07_deliveries_tcp_pdu_len_partial :
  forall (dec : bytes -> dres) (server : bool) (c : cfg) (st : tstate) (chunk : bytes) st' ds o,
  (forall pdu, is_msg (dec pdu) = true -> pdu_len_ok server pdu = true) ->
  wfb (t_buf st) = true -> wfb chunk = true ->
  t_recv base tcp dec c st chunk = (st', ds, o) ->
  Forall (fun d => tcp_justified (t_buf st ++ chunk) d /\ pdu_len_ok server (d_pdu d) = true) ds.
Proof. exact tcp_recv_gate_len. Qed.
Print Assumptions C07_deliveries_tcp_pdu_len_partial.

(* ... and refuted without it: a ReadExceptionStatus request (1-byte PDU) with length field 6 *)
Theorem C07_tcp_pdu_len_refuted : exists dec c chunk st' d,
  t_recv base tcp dec c (t_init tcp) chunk = (st', [d], Done) /\ pdu_len_ok true (d_pdu d) = false.
Proof.
  exists (fun _ => DMsg 7), {| c_units := [1]; c_single := Some false |},
         [0; 1; 0; 0; 0; 6; 1; 7; 0; 2; 0; 0; 0; 6; 1; 3]%N.
  eexists. eexists. vm_compute. split; reflexivity.
Qed.
Print Assumptions C07_tcp_pdu_len_refuted.

(* the input that used to produce a bogus delivery (7 bytes, first byte >= 0x80) is now just buffered *)
Theorem C07_tcp_fixed_witness :
  t_recv base tcp (fun _ => DMsg 128) {| c_units := [1]; c_single := Some false |} (t_init tcp)
         [128%N; 1%N; 0%N; 0%N; 0%N; 6%N; 1%N]
  = ({| t_buf := [128%N; 1%N; 0%N; 0%N; 0%N; 6%N; 1%N]; t_hdr := hdr0 |}, [], Done).
Proof. vm_compute. reflexivity. Qed.
Print Assumptions C07_tcp_fixed_witness.

(* detection power of the LRC: changing any single byte of unit+PDU+LRC (in particular any single
   hex character of a frame into another hex character) breaks the check equation *)
Theorem C07_lrc_single_char : forall (pre post : bytes) (x x' : N),
  (x < 256)%N -> (x' < 256)%N -> x <> x' ->
  lrc_ok (pre ++ x :: post) -> ~ lrc_ok (pre ++ x' :: post).
Proof. exact lrc_single_byte. Qed.
Print Assumptions C07_lrc_single_char.

Theorem C07_lrc_ok_iff : forall (body : bytes) (ck : N), (ck < 256)%N ->
  (lrc_ok (body ++ [ck]) <-> Z.of_N ck = spec_lrc body).
Proof. exact lrc_ok_iff. Qed.
Print Assumptions C07_lrc_ok_iff.

Example C07_nonvacuous :
  snd (a_check lrc ascii {| a_buf := [120; 58; 48; 49; 48; 51; 70; 67; 13; 10; 7]%N; a_hdr := a_hdr_init ascii |}) = true
  /\ lrc_ok [1; 3; 252]%N.
Proof. split; vm_compute; reflexivity. Qed.
