(* Props/C08_rtu.v — C08 for the serial RTU client with the CONCRETE RTU framer model (see Props/C13_rtu.v). *)
From PM.theories Require Import Base Expr Struct FrBCode Crc FrBCommon FrRtu FrSpecB.
From PM.Generated Require Import GenFramerB GenClient.
From PM.proofs Require Import FrB_rtu_proofs FrB_rtu_client_proofs.
From PM.theories Require Import Client CorrClient.
From PM.proofs Require Import Client_proofs Client_reads_proofs ClientRtu_proofs ClientRtu_ready_proofs.
Open Scope list_scope.
Open Scope Z_scope.

(* a returned reply is the decoding of a PDU that sits — its unit id in front, a matching CRC-16 behind — inside the
   bytes this call read; its unit id is the one on the wire *)
Theorem C08_from_this_call_rtu : forall (dec : bytes -> FrBCommon.dres)
  (dec_total : forall pdu, dec pdu = FrBCommon.DMsg \/ dec pdu = FrBCommon.DNone) c st rq sc st' o m,
  s_tx st = [] -> execute code rok (rtu_framer dec dec_total) c st rq sc = (st', o) -> o_res o = RReply m ->
  exists resp pdu uid, m = rmsg_of (pdu, uid) /\
    (wfb resp = true ->
     exists u pre rest, resp = pre ++ spec_adu_rtu u pdu ++ rest /\ uid = Z.of_N u /\ crc_ok (spec_adu_rtu u pdu) = true).
Proof. exact from_this_call_rtu. Qed.
Print Assumptions C08_from_this_call_rtu.

(* the spec ADU (unit, PDU, CRC-16) of any frame valid for the request's unit (size rule right for it, decoder accepts it),
   served by a healthy serial transport, is returned decoded; [fits] is what C14 provides for the request *)
Theorem C08_conformant_reply_rtu : forall (dec : bytes -> FrBCommon.dres)
  (dec_total : forall pdu, dec pdu = FrBCommon.DMsg \/ dec pdu = FrBCommon.DNone) c st rq (u fcb : N) data rest,
  c_framing c = FRtu -> c_udp c = false -> s_tx st = [] -> c_bcast c && (r_unit rq =? 0) = false ->
  0 <= retries_given c ->
  Z.of_N u = r_unit rq -> valid_frame (ucfg dec (r_unit rq)) true u (fcb :: data) ->
  fits (exp_of c rq) (spec_adu_rtu u (fcb :: data)) ->
  (128 <= Z.of_N fcb -> length data = 1%nat) ->
  exists st' o,
    execute code rok (rtu_framer dec dec_total) c st rq
      ((if s_conn st then [] else [Nothing])
         ++ attempt true (rtu_script (full_of rok c st rq) (spec_adu_rtu u (fcb :: data))) ++ rest) = (st', o)
    /\ o_res o = RReply (rmsg_of (fcb :: data, r_unit rq)) /\ s_tx st' = [] /\ s_tid st' = next_tid code (s_tid st).
Proof. exact conformant_reply_rtu. Qed.
Print Assumptions C08_conformant_reply_rtu.

(* the framer hypotheses of Props/C08.v / C13.v, proved for the RTU framer *)
Theorem C08_rtu_framer_hypotheses : forall (dec : bytes -> FrBCommon.dres)
  (dec_total : forall pdu, dec pdu = FrBCommon.DMsg \/ dec pdu = FrBCommon.DNone),
  framer_raises_io rok (rtu_framer dec dec_total) /\ reset_empties rok (rtu_framer dec dec_total) /\
  (forall (u : N) pdu, valid_frame (ucfg dec (Z.of_N u)) true u pdu ->
     conformant_frame rok (rtu_framer dec dec_total) (spec_adu_rtu u pdu) (Z.of_N u) (rmsg_of (pdu, Z.of_N u))) /\
  (forall fs resp u fs' ms e, f_nonempty (rtu_framer dec dec_total) fs = false -> ~ two_frames resp ->
     f_process (rtu_framer dec dec_total) fs resp u = (fs', ms, Some e) -> ms = []).
Proof.
  intros dec Hd. split; [exact (rtu_framer_raises_io dec Hd)|]. split; [exact (rtu_reset_empties dec Hd)|].
  split; [exact (rtu_conformant_frame dec Hd)|exact (rtu_proc_clean_read dec Hd)].
Qed.
Print Assumptions C08_rtu_framer_hypotheses.
