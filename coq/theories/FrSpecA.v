(* FrSpecA.v — SPECIFICATION side for the socket (MBAP), ASCII and TLS framings: the ADU
   byte layouts of the Modbus specifications and reference receivers used as property
   oracles.  Written from the specification text, independent of the code-shaped models
   (FrTcp/FrAscii/FrTls) — it shares with them only the vocabulary of FrBaseA and the
   definition of the LRC (Lrc.spec_lrc).  No proofs. *)
From PM.theories Require Import Base Struct FrBaseA Lrc.
Open Scope list_scope.
Open Scope Z_scope.

Record frame := { f_tid : Z; f_pid : Z; f_uid : Z; f_pdu : bytes }.

(* MBAP: transaction id, protocol id, length = |PDU| + 1 (the unit id), unit id, PDU *)
Definition spec_adu_tcp (tid pid uid : Z) (pdu : bytes) : bytes :=
  be16 tid ++ be16 pid ++ be16 (Z.of_nat (length pdu) + 1) ++ [Z.to_N uid] ++ pdu.

(* ASCII: ':' , two upper-case hex characters per byte of unit, PDU, LRC , CR LF *)
Definition spec_hexdig (v : Z) : N := Z.to_N (if v <? 10 then 48 + v else 55 + v).
Definition spec_hex_byte (b : N) : bytes := [spec_hexdig (Z.of_N b / 16); spec_hexdig (Z.of_N b mod 16)].
Definition spec_adu_ascii (uid : Z) (pdu : bytes) : bytes :=
  let body := Z.to_N uid :: pdu in
  58%N :: flat_map spec_hex_byte (body ++ [Z.to_N (spec_lrc body)]) ++ [13%N; 10%N].

(* Modbus/TCP Security: the decrypted record is the bare PDU *)
Definition spec_adu_tls (pdu : bytes) : bytes := pdu.

Inductive kind := KTcp | KAscii | KTls.

Definition spec_adu (k : kind) (f : frame) : bytes :=
  match k with
  | KTcp => spec_adu_tcp (f_tid f) (f_pid f) (f_uid f) (f_pdu f)
  | KAscii => spec_adu_ascii (f_uid f) (f_pdu f)
  | KTls => spec_adu_tls (f_pdu f)
  end.

(* what a receiver must hand over for a frame: the header fields the framing carries *)
Definition spec_delivery (k : kind) (f : frame) : delivery :=
  match k with
  | KTcp => {| d_pdu := f_pdu f; d_tid := f_tid f; d_pid := f_pid f; d_uid := f_uid f |}
  | KAscii => {| d_pdu := f_pdu f; d_tid := 0; d_pid := 0; d_uid := f_uid f |}
  | KTls => {| d_pdu := f_pdu f; d_tid := 0; d_pid := 0; d_uid := 0 |}
  end.

(* unit filter as documented: single context, or 0 / 0xFF among the units (accept all),
   or the frame's unit is listed; TLS carries no unit (single defaults to True there) *)
Definition spec_single (k : kind) (c : cfg) : bool :=
  match c_single c with Some b => b | None => match k with KTls => true | _ => false end end.
Definition spec_accepts (k : kind) (c : cfg) (uid : Z) : bool :=
  spec_single k c || zmem 0 (c_units c) || zmem 255 (c_units c) || zmem uid (c_units c).

Definition is_msg (r : dres) : bool := match r with DMsg _ => true | _ => false end.

(* reference delivery, one frame per read: every accepted frame, in order *)
Definition ref_deliveries (k : kind) (c : cfg) (frames : list frame) : list delivery :=
  map (spec_delivery k) (filter (fun f => spec_accepts k c (f_uid f)) frames).

(* ---- reference receiver of C07: a delivery must be justified by a span of the input --- *)
Fixpoint is_infix (p l : bytes) : bool :=
  match l with
  | [] => match p with [] => true | _ => false end
  | _ :: t => prefix_eqb p l || is_infix p t
  end.

Definition in16 (v : Z) : bool := (0 <=? v) && (v <? 65536).
Definition in8 (v : Z) : bool := (0 <=? v) && (v <? 256).

(* TCP: an MBAP header whose length field is consistent with the PDU (and >= 2), followed by it *)
Definition justified_tcp (input : bytes) (d : delivery) : bool :=
  in16 (d_tid d) && in16 (d_pid d) && in8 (d_uid d) && (1 <=? Z.of_nat (length (d_pdu d)))
  && (Z.of_nat (length (d_pdu d)) + 1 <? 65536)
  && is_infix (spec_adu_tcp (d_tid d) (d_pid d) (d_uid d) (d_pdu d)) input.

(* ASCII: ':' , hex characters (either case) , CR LF with a matching LRC *)
Definition spec_hexval (b : N) : option Z :=
  if (48 <=? b)%N && (b <=? 57)%N then Some (Z.of_N b - 48)
  else if (65 <=? b)%N && (b <=? 70)%N then Some (Z.of_N b - 55)
  else if (97 <=? b)%N && (b <=? 102)%N then Some (Z.of_N b - 87) else None.

(* decode hex pairs up to CR LF; None if anything else is met *)
Fixpoint spec_unhex_to_crlf (l : bytes) : option bytes :=
  match l with
  | 13%N :: 10%N :: _ => Some []
  | a :: t =>
      match t with
      | b :: t' =>
          match spec_hexval a, spec_hexval b with
          | Some x, Some y => match spec_unhex_to_crlf t' with Some r => Some (Z.to_N (16 * x + y) :: r) | None => None end
          | _, _ => None
          end
      | [] => None
      end
  | [] => None
  end.

Definition ascii_span_ok (l : bytes) (d : delivery) : bool :=   (* l starts just after a ':' *)
  match spec_unhex_to_crlf l with
  | Some body =>
      let n := length body in
      (2 <=? Z.of_nat n) &&
      let msg := firstn (n - 1) body in
      match msg, skipn (n - 1) body with
      | u :: pdu, [ck] => (Z.of_N u =? d_uid d) && list_eqb N.eqb pdu (d_pdu d) && (Z.of_N ck =? spec_lrc msg)
      | _, _ => false
      end
  | None => false
  end.

Fixpoint justified_ascii_from (l : bytes) (d : delivery) : bool :=
  match l with
  | [] => false
  | c :: t => ((c =? 58)%N && ascii_span_ok t d) || justified_ascii_from t d
  end.
Definition justified_ascii (input : bytes) (d : delivery) : bool :=
  (d_tid d =? 0) && (d_pid d =? 0) && justified_ascii_from input d.

Definition justified (k : kind) (input : bytes) (d : delivery) : bool :=
  match k with
  | KTcp => justified_tcp input d
  | KAscii => justified_ascii input d
  | KTls => list_eqb N.eqb input (d_pdu d)
  end.

(* ---- C11 ------------------------------------------------------------------------------ *)
Definition ascii_lmax : Z := 513.          (* ':' + 2 * (unit + 253-byte PDU + LRC) + CR LF *)

Fixpoint is_subseq (p l : list delivery) : bool :=
  match p, l with
  | [], _ => true
  | _ :: _, [] => false
  | a :: p', b :: l' => if delivery_eqb a b then is_subseq p' l' else is_subseq p l'
  end.

(* frames that begin at least [skip] bytes into the valid traffic *)
Fixpoint late_frames (k : kind) (skip : Z) (frames : list frame) : list frame :=
  match frames with
  | [] => []
  | f :: t => if skip <=? 0 then frames else late_frames k (skip - Z.of_nat (length (spec_adu k f))) t
  end.

(* ---- valid frames (hypotheses of the theorems) ------------------------------------------- *)
Definition tcp_wf (f : frame) : Prop :=
  0 <= f_tid f < 65536 /\ 0 <= f_pid f < 65536 /\ 0 <= f_uid f < 256 /\
  (1 <= length (f_pdu f))%nat /\ Z.of_nat (length (f_pdu f)) + 1 < 65536.
Definition ascii_wf (f : frame) : Prop :=
  0 <= f_uid f < 256 /\ wfb (f_pdu f) = true /\ (1 <= length (f_pdu f))%nat.
Definition frame_wf (k : kind) (f : frame) : Prop :=
  match k with KTcp => tcp_wf f | KAscii => ascii_wf f | KTls => (1 <= length (f_pdu f))%nat end.
(* well-formed, decodable by the decoder in use, addressed to an accepted unit *)
Definition valid_frame (k : kind) (dec : bytes -> dres) (c : cfg) (f : frame) : Prop :=
  frame_wf k f /\ is_msg (dec (f_pdu f)) = true /\ spec_accepts k c (f_uid f) = true.

(* a frame of a mixed stream: well-formed; decodable if it is addressed to an accepted unit
   (a frame for a unit that is not served only has to be skipped, whatever its PDU) *)
Definition stream_frame (k : kind) (dec : bytes -> dres) (c : cfg) (f : frame) : Prop :=
  frame_wf k f /\ (spec_accepts k c (f_uid f) = true -> is_msg (dec (f_pdu f)) = true).

(* ---- PDU length defined by the function code (Modbus Application Protocol v1.1b3, section 6) ---
   "an MBAP length consistent with the PDU": the length field must be 1 + the length the
   protocol defines for this function code in this direction — a fixed size, or a size given by
   the byte-count field at a fixed position.  [None]: no prefix-stable rule is stated here
   (diagnostics FC 8, FIFO response FC 24, encapsulated interface FC 43, user-defined codes);
   the oracle does not constrain those.  server = true: requests; false: responses. *)
Definition counted (pdu : bytes) (pos : nat) (base : Z) : option Z :=
  match nth_error pdu pos with Some b => Some (base + Z.of_N b) | None => Some base end.

Definition spec_pdu_len (server : bool) (pdu : bytes) : option Z :=
  match pdu with
  | [] => None
  | fc :: _ =>
      if server then
        match Z.of_N fc with
        | 1 | 2 | 3 | 4 | 5 | 6 => Some 5          (* address + quantity / value *)
        | 7 | 11 | 12 | 17 => Some 1                (* function code only *)
        | 15 | 16 => counted pdu 5 6                (* address, quantity, byte count, data *)
        | 20 | 21 => counted pdu 1 2                (* byte count, sub-requests *)
        | 22 => Some 7                              (* address, and-mask, or-mask *)
        | 23 => counted pdu 9 10                    (* read addr/qty, write addr/qty, byte count, data *)
        | 24 => Some 3                              (* FIFO pointer address *)
        | _ => None
        end
      else if (128 <=? fc)%N then Some 2            (* exception response: code *)
      else
        match Z.of_N fc with
        | 1 | 2 | 3 | 4 | 12 | 17 | 20 | 21 | 23 => counted pdu 1 2      (* byte count, data *)
        | 5 | 6 | 11 | 15 | 16 => Some 5
        | 7 => Some 2
        | 22 => Some 7
        | _ => None
        end
  end.

Definition pdu_len_ok (server : bool) (pdu : bytes) : bool :=
  match spec_pdu_len server pdu with Some n => Z.of_nat (length pdu) =? n | None => true end.

(* the C07 reference receiver for TCP: an MBAP frame in the input AND a PDU of the defined length *)
Definition justified_dir (k : kind) (server : bool) (input : bytes) (d : delivery) : bool :=
  justified k input d && match k with KTcp => pdu_len_ok server (d_pdu d) | _ => true end.
